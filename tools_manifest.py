#!/usr/bin/env python3
"""Regenerate MANIFEST.json from checks.json (claimed checks) and properties.jsonl (not_applicable for the rest)."""
import json
checks = json.load(open('/verif/checks.json'))
props = [json.loads(l) for l in open('/verif/properties.jsonl')]
na_reasons = json.load(open('/verif/not_applicable.json'))
TECH = "bounded symbolic execution of the real go/ssa (own engine symgo), QF_BV queries decided by z3; counterexamples replayed natively"
man = {
 "version": 1,
 "setup_cmd": "./setup.sh",
 "hooks": {"guard": "verif", "enable": "no hooks in /repo: harnesses and the native replay runtime are injected with go/packages Overlay (analysis) and `go test -overlay` (replay); the guard name is reserved",
           "baseline_off_cmd": "cd /repo && go test -mod=mod -json -vet=off -count=1 -timeout 25m ./...", "source_commits": [], "add_only": True},
 "engines": [{"name": "symgo", "path": "engine", "serves_properties": sorted(checks.keys()),
              "kind_free_text": "own symbolic executor for go/ssa (x/tools v0.29.0): /repo's current source + needed stdlib bodies interpreted over bit-vector terms, path-wise SMT (QF_BV) queries to z3 4.8.12, depth-first re-execution over 16 workers, native replay of every counterexample"}],
 "checks": [], "not_applicable": [],
 "notes": "All checks: ./check <ID> quick|thorough. Exit 0 held within bounds, 1 VIOLATION (replayed natively), 2 inconclusive (never success). Known findings: known_findings.json. See DESIGN.md.",
}
for p in props:
    pid = p['id']
    if pid in checks and checks[pid].get('harnesses'):
        c = checks[pid]
        man['checks'].append({
            "property_id": pid,
            "quick_cmd": "./check %s quick" % pid,
            "thorough_cmd": "./check %s thorough" % pid,
            "evidence_file": "/verif/evidence/%s.json" % pid,
            "replay_cmd_template": "cd /repo && VERIF_REPLAY={path} go test -v -vet=off -count=1 -overlay <overlay of /verif/harness> -run '^TestVerifReplay$' ./<pkg>   (done automatically by the check before a VIOLATION is printed)",
            "engine": "symgo",
            "level_claimed": {"category": "other", "text": c.get('level_text') or ("Bounded symbolic execution, SMT-decided: within the stated bounds every path of the harnesses is explored and every assertion / implicit panic check is discharged by the solver for all values of the symbolic inputs. " + c.get('explanation', '')), "design_ref": "DESIGN.md section 6 " + pid},
            "level_note": c.get('level_note') or ("Trusted: go/ssa front end, the engine's instruction semantics (guarded by native replay of every counterexample), z3 verdicts, the stubs of DESIGN 2.9. " + "; ".join(c.get('assumptions', []))),
            "technique": TECH,
        })
    else:
        man['not_applicable'].append({"property_id": pid, "reason": na_reasons.get(pid, "check not built yet")})
json.dump(man, open('/verif/MANIFEST.json', 'w'), indent=1)
print("claimed:", [c['property_id'] for c in man['checks']])
print("not applicable:", [c['property_id'] for c in man['not_applicable']])
