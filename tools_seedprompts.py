#!/usr/bin/env python3
"""Prepare scratch worktrees and prompts for a round of sub-agent-written changes.
  tools_seedprompts.py <dir> break|neutral [ID...]
Each agent gets only: the text of one property, its own worktree <dir>/<ID>, and (break mode) one line per
earlier proposal for that property so that it looks for a different mechanism. Nothing from /verif is shown."""
import json, os, subprocess, sys, glob
root, mode = sys.argv[1], sys.argv[2]
ids = sys.argv[3:]
props = {json.loads(l)['id']: json.loads(l) for l in open('/verif/properties.jsonl')}
os.makedirs(root, exist_ok=True)
base = json.load(open('/root/.vp/BASELINE.json'))['stable_pass']
open(f'{root}/baseline_check.py', 'w').write('''#!/usr/bin/env python3
import json, sys
base = %r
res = {}
for l in open(sys.argv[1]):
    try: e = json.loads(l)
    except Exception: continue
    if e.get('Test') and e.get('Action') in ('pass', 'fail', 'skip'):
        res[e['Package'] + '::' + e['Test']] = e['Action']
bad = [t for t in base if res.get(t) != 'pass']
print('baseline tests:', len(base), 'passing now:', len(base) - len(bad))
for t in bad: print('NOT PASSING:', t, res.get(t))
''' % (base,))
for pid in (ids or sorted(props)):
    p = props[pid]
    wt = f'{root}/{pid}'
    subprocess.run(f'git -C /repo worktree add -q --detach {wt} HEAD', shell=True, check=True)
    text = f"PROPERTY {pid}: {p['title']}\n\nSTATEMENT: {p['statement']}\n\nQUANTIFIED OVER: {p['quantifier']['text']}\n\nWHY THE EXISTING TESTS CANNOT SETTLE IT: {p['why_tests_cant']}\n\nCODE ANCHORS: {json.dumps(p['anchors'], indent=1)}\n"
    open(f'{root}/{pid}.property.txt', 'w').write(text)
    earlier = []
    for mf in sorted(glob.glob(f'/verif/seeded/{pid}*/meta.json')):
        m = json.load(open(mf))
        if m.get('what') and m.get('kind', 'break') == 'break':
            earlier.append('  - ' + m['what'] + ' (needs: ' + m.get('needs', '') + ')')
    common_env = f"""Environment notes: no network; Go toolchain is installed; always `export GOFLAGS=-mod=mod GOPROXY=off GOSUMDB=off GOTOOLCHAIN=local` first. The repository HEAD already contains a few recent "fix:" commits; work on top of HEAD as it is. Do NOT use `git stash` (the stash is shared between worktrees and other agents are working in sibling worktrees): to test without your change use `git -C {wt} diff -- . ':(exclude)*zz_demo*' > {root}/{pid}.patch; git -C {wt} apply -R {root}/{pid}.patch; ...; git -C {wt} apply {root}/{pid}.patch`.
In this sandbox the diam, diam/sm and diam/diamtest test binaries abort when their SCTP tests run, so always use -run with your test's name when running your own test. The demo must be deterministic (if it needs goroutines, synchronise with channels; keep any sleeps short and generous), must not need a network or kernel SCTP (use in-memory net.Conn / io.Reader implementations or net.Pipe)."""
    head = f"""You are helping to evaluate a verification effort for the Go library fiorix/go-diameter (Diameter base protocol, RFC 6733). You have your OWN scratch git worktree of the repository at {wt} (work only there; do not read or touch /repo, /verif or any other directory under {root} except the files named below).

Here is a semantic property that the library is supposed to satisfy (also in {root}/{pid}.property.txt):

-----
{text}
-----
"""
    suite = f"""the pinned test suite still passes. Check it exactly like this (takes ~1 minute):
        cd {wt} && export GOFLAGS=-mod=mod GOPROXY=off GOSUMDB=off && go test -mod=mod -json -vet=off -count=1 -timeout 25m ./... > {root}/{pid}.testlog.json 2>&1 ; python3 {root}/baseline_check.py {root}/{pid}.testlog.json
      It must print "baseline tests: 140 passing now: 140". (Some test binaries abort at SCTP tests in this sandbox; that is expected and already accounted for by the script.)"""
    earlier_n = []
    for mf in sorted(glob.glob(f'/verif/seeded/{pid}[nmk]/meta.json')):
        m = json.load(open(mf))
        if m.get('what'): earlier_n.append('  - ' + m['what'])
    if mode == 'break':
        body = f"""YOUR TASK: produce ONE realistic change (a plausible bug a maintainer could introduce: a refactoring slip, an off-by-one, a dropped guard, a wrong constant, swapped arguments, a missing copy/lock, an optimisation that is not quite equivalent, ...) to the library's non-test Go source under {wt}/diam/ that BREAKS this property while
  (a) the module still compiles: `cd {wt} && go build ./... `
  (b) {suite}
  (c) the breakage is NOT something ordinary use would expose at once. It should need something specific to manifest: a particular interleaving, a fault at a particular point, a multi-step sequence of operations, an unusual input (boundary length, rare flag combination, specific value), or two cooperating sites that each look fine alone. Avoid changes that break every message or every connection.
Do not edit any *_test.go file that already exists, do not change go.mod, and keep the change small (a few lines, one or two files).

Earlier proposals for this property (find a DIFFERENT mechanism, code site and manifestation condition; do not repeat these):
{chr(10).join(earlier) if earlier else '  (none)'}

ALSO produce a DEMONSTRATION: a new Go test file (name it zz_demo_{pid}_test.go, placed in the package it needs, e.g. {wt}/diam/ or {wt}/diam/sm/) with a test function TestDemo{pid} that FAILS with your change applied and PASSES on the original code. It must run with:
        cd {wt} && go test -vet=off -count=1 -run '^TestDemo{pid}$' ./<package dir>
Verify both directions yourself: run the demo with your change (must fail), revert the source change as described below (keep the demo file), run the demo again (must pass), then re-apply.

{common_env}

WHEN DONE, leave in {root}/{pid}.out/ (create it):
  - patch.diff : output of `git -C {wt} diff -- . ':(exclude)*zz_demo*'` (the source change only, NOT the demo)
  - the demo test file (copy)
  - notes.md : which property clause is broken, what exactly is needed for the breakage to manifest, and the commands you ran with their observed results (build ok, 140/140, demo fails with change, demo passes without). Mention the demo's run command literally (`-run '^TestDemo{pid}$' ./<package dir>`).
Then leave the worktree with your change still applied and reply with a short summary (what you changed, what it needs to manifest, results of the three checks).
"""
    else:
        body = f"""YOUR TASK: produce ONE realistic change to the library's non-test Go source under {wt}/diam/ that a maintainer could plausibly make to the code this property is anchored in and that PRESERVES the property: the library behaves differently or is structured differently afterwards, but the property as stated still holds for every input, schedule and history. Make it a change that a careless or over-fitted checker of this property might wrongly flag. Good candidates: a refactoring that moves or renames internal (unexported) helpers or fields or changes their signatures; an optimisation that is genuinely equivalent; a different but still correct locking or buffering scheme; a changed internal buffer size or other tunable; changed error message texts or error types where the property only demands "an error"; a different but permitted order of independent operations; extra validation that rejects only input the property already says must be rejected; an added feature or option whose default keeps the old behaviour; stricter or more defensive copying. Prefer a change that touches the mechanism the property depends on (not a comment or a cosmetic rename), and say in your notes why the property still holds afterwards (a short argument per clause). Do NOT change exported API signatures or remove exported identifiers.

Earlier property-preserving proposals for this property (choose a DIFFERENT part of the mechanism or a different kind of change; do not repeat these):
{chr(10).join(earlier_n) if earlier_n else '  (none)'}

  (a) the module still compiles: `cd {wt} && go build ./... `
  (b) {suite}
Do not edit any *_test.go file that already exists, do not change go.mod, and keep the change moderate (up to a few dozen lines, one to three files).

ALSO produce a DEMONSTRATION: a new Go test file (name it zz_demo_{pid}_test.go, placed in the package it needs, e.g. {wt}/diam/ or {wt}/diam/sm/) with a test function TestDemo{pid} that exercises the property's clauses around the code you changed (including boundary cases relevant to your change) and PASSES both on the original code and with your change. It must run with:
        cd {wt} && go test -vet=off -count=1 -run '^TestDemo{pid}$' ./<package dir>
Run it both with your change and without (revert as described below, keep the demo file, re-apply afterwards).

{common_env}

WHEN DONE, leave in {root}/{pid}.out/ (create it):
  - patch.diff : output of `git -C {wt} diff -- . ':(exclude)*zz_demo*'` (the source change only, NOT the demo)
  - the demo test file (copy)
  - notes.md : what you changed, why each clause of the property still holds, what observable behaviour (if any) differs from before, and the commands you ran with their observed results (build ok, 140/140, demo passes with and without). Mention the demo's run command literally (`-run '^TestDemo{pid}$' ./<package dir>`).
Then leave the worktree with your change still applied and reply with a short summary.
"""
    open(f'{root}/{pid}.prompt.txt', 'w').write(head + body)
print('prepared', root)
