#!/usr/bin/env python3
"""Confirm and evaluate seeded changes.
  tools_seeded.py ingest <ID> [tier]   copy /tmp/seed/<ID>.out -> /verif/seeded/<ID>, confirm it in a scratch
                                       worktree (builds, 140/140, demo fails with / passes without), then apply the
                                       patch to /repo, run ./check <ID> <tier>, undo, record meta.json
  tools_seeded.py run <ID> [tier] [PROP...]  re-run checks (default: the property itself) on the kept patch
  tools_seeded.py results               regenerate seeded/RESULTS.md
"""
import json, os, shutil, subprocess, sys, glob, re, time
ENV = dict(os.environ, GOFLAGS='-mod=mod', GOPROXY='off', GOSUMDB='off', GOTOOLCHAIN='local')
def sh(cmd, cwd=None, timeout=3600):
    r = subprocess.run(cmd, shell=True, cwd=cwd, env=ENV, capture_output=True, text=True, timeout=timeout)
    return r.returncode, r.stdout + r.stderr
def demo_pkg(d):
    f = glob.glob(os.path.join(d, 'zz_demo_*_test.go'))[0]
    src = open(f).read()
    pkg = re.search(r'^package (\w+)', src, re.M).group(1)
    return f, pkg
def confirm(sid):
    d = f'/verif/seeded/{sid}'
    wt = f'/tmp/seedchk/{sid}'
    os.makedirs('/tmp/seedchk', exist_ok=True)
    sh(f'git -C /repo worktree remove --force {wt}')
    rc, out = sh(f'git -C /repo worktree add -q --detach {wt} HEAD')
    res = {}
    try:
        demo, pkg = demo_pkg(d)
        # where does the demo go? find the directory whose package name matches and which the notes mention
        cands = {'diam': 'diam', 'diam_test': 'diam', 'sm': 'diam/sm', 'sm_test': 'diam/sm', 'datatype': 'diam/datatype', 'dict': 'diam/dict',
                 'smparser': 'diam/sm/smparser', 'smpeer': 'diam/sm/smpeer', 'diamtest': 'diam/diamtest', 'avp': 'diam/avp'}
        pdir = cands.get(pkg)
        notes = open(os.path.join(d, 'notes.md')).read() if os.path.exists(os.path.join(d, 'notes.md')) else ''
        m = re.search(r"-run '\^TestDemo\w+\$' \./([\w/]+)", notes)
        if m: pdir = m.group(1).rstrip('/')
        res['demo_pkg_dir'] = pdir
        shutil.copy(demo, os.path.join(wt, pdir, os.path.basename(demo)))
        test = f"go test -vet=off -count=1 -run '^TestDemo{sid[:3]}$' ./{pdir}"
        rc0, out0 = sh(test, cwd=wt, timeout=600)
        res['demo_without_change'] = 'pass' if rc0 == 0 else 'FAIL'
        rc, out = sh(f'git apply {d}/patch.diff', cwd=wt)
        res['patch_applies'] = rc == 0
        if rc != 0:
            res['apply_output'] = out[-500:]; return res
        rc, out = sh('go build ./...', cwd=wt, timeout=600)
        res['builds'] = rc == 0
        rc1, out1 = sh(test, cwd=wt, timeout=600)
        res['demo_with_change'] = 'fail' if rc1 != 0 else 'PASSES'
        res['demo_failure_excerpt'] = out1[-600:] if rc1 != 0 else ''
        os.remove(os.path.join(wt, pdir, os.path.basename(demo)))
        rc, out = sh(f'go test -mod=mod -json -vet=off -count=1 -timeout 25m ./... > /tmp/seedchk/{sid}.json 2>&1; python3 /verif/tools_baseline.py /tmp/seedchk/{sid}.json', cwd=wt, timeout=1800)
        res['baseline'] = out.strip().splitlines()[0] if out.strip() else ''
        res['baseline_ok'] = 'passing now: 140' in out
    finally:
        sh(f'git -C /repo worktree remove --force {wt}')
        for f in glob.glob(f'/tmp/seedchk/{sid}*'):
            if os.path.isfile(f): os.remove(f)
    return res
def related_props(sid):
    """properties whose anchored files intersect the files the patch touches (plus the property itself)"""
    import fnmatch
    d = f'/verif/seeded/{sid}'
    files = re.findall(r'^\+\+\+ b/(\S+)', open(f'{d}/patch.diff').read(), re.M)
    out = [sid[:3]]
    for l in open('/verif/properties.jsonl'):
        p = json.loads(l)
        pats = p['anchors'].get('files', [])
        if p['id'] not in out and any(fnmatch.fnmatch(f, pat) for f in files for pat in pats):
            out.append(p['id'])
    return out
def confirm_neutral(sid):
    d = f'/verif/seeded/{sid}'
    wt = f'/tmp/seedchk/{sid}'
    os.makedirs('/tmp/seedchk', exist_ok=True)
    sh(f'git -C /repo worktree remove --force {wt}')
    sh(f'git -C /repo worktree add -q --detach {wt} HEAD')
    res = {}
    try:
        demo, pkg = demo_pkg(d)
        cands = {'diam': 'diam', 'diam_test': 'diam', 'sm': 'diam/sm', 'sm_test': 'diam/sm', 'datatype': 'diam/datatype', 'dict': 'diam/dict',
                 'smparser': 'diam/sm/smparser', 'smpeer': 'diam/sm/smpeer', 'diamtest': 'diam/diamtest', 'avp': 'diam/avp'}
        pdir = cands.get(pkg)
        notes = open(os.path.join(d, 'notes.md')).read() if os.path.exists(os.path.join(d, 'notes.md')) else ''
        m = re.search(r"-run '\^TestDemo\w+\$' \./([\w/]+)", notes)
        if m: pdir = m.group(1).rstrip('/')
        res['demo_pkg_dir'] = pdir
        shutil.copy(demo, os.path.join(wt, pdir, os.path.basename(demo)))
        test = f"go test -vet=off -count=1 -run '^TestDemo{sid[:3]}$' ./{pdir}"
        rc0, out0 = sh(test, cwd=wt, timeout=600)
        res['demo_without_change'] = 'pass' if rc0 == 0 else 'FAIL'
        rc, out = sh(f'git apply {d}/patch.diff', cwd=wt)
        res['patch_applies'] = rc == 0
        if rc != 0:
            res['apply_output'] = out[-500:]; return res
        rc, out = sh('go build ./...', cwd=wt, timeout=600)
        res['builds'] = rc == 0
        rc1, out1 = sh(test, cwd=wt, timeout=600)
        res['demo_with_change'] = 'pass' if rc1 == 0 else 'FAIL'
        os.remove(os.path.join(wt, pdir, os.path.basename(demo)))
        rc, out = sh(f'go test -mod=mod -json -vet=off -count=1 -timeout 25m ./... > /tmp/seedchk/{sid}.json 2>&1; python3 /verif/tools_baseline.py /tmp/seedchk/{sid}.json', cwd=wt, timeout=1800)
        res['baseline'] = out.strip().splitlines()[0] if out.strip() else ''
        res['baseline_ok'] = 'passing now: 140' in out
    finally:
        sh(f'git -C /repo worktree remove --force {wt}')
        for f in glob.glob(f'/tmp/seedchk/{sid}*'):
            if os.path.isfile(f): os.remove(f)
    return res
def run_checks(sid, tier, props):
    d = f'/verif/seeded/{sid}'
    out = {}
    rc, o = sh('git -C /repo status --porcelain')
    if o.strip():
        print('refusing: /repo working tree not clean:', o); sys.exit(2)
    rc, o = sh(f'git -C /repo apply {d}/patch.diff')
    if rc != 0:
        return {'apply': 'failed: ' + o[-300:]}
    try:
        for p in props:
            t0 = time.time()
            rc, o = sh(f'./check {p} {tier} --noevidence', cwd='/verif', timeout=7200)
            lines = [l for l in o.splitlines() if l.startswith(('VIOLATION', '  harness', 'KNOWN', 'INCONCLUSIVE', 'symgo:'))]
            out[p] = {'tier': tier, 'exit': rc, 'detected': rc == 1, 'wall_s': round(time.time() - t0, 1), 'lines': [l[:260] for l in lines[:6]]}
    finally:
        sh('git -C /repo checkout -- .')
    return out
def run_checks_scratch(sid, tier, props, extra=''):
    """Same as run_checks but on a scratch copy of /repo (lets long runs proceed while /repo stays untouched)."""
    import tempfile
    d = f'/verif/seeded/{sid}'
    tmp = tempfile.mkdtemp(prefix='seedrun-')
    out = {}
    try:
        dst = os.path.join(tmp, 'repo')
        shutil.copytree('/repo', dst, ignore=shutil.ignore_patterns('.git'))
        rc, o = sh(f'git apply {d}/patch.diff', cwd=dst)
        if rc != 0:
            rc, o = sh(f'patch -p1 < {d}/patch.diff', cwd=dst)
            if rc != 0:
                return {'apply': 'failed: ' + o[-300:]}
        for p in props:
            t0 = time.time()
            rc, o = sh(f'./check {p} {tier} --noevidence --repo {dst} {extra}', cwd='/verif', timeout=14400)
            lines = [l for l in o.splitlines() if l.startswith(('VIOLATION', '  harness', 'KNOWN', 'INCONCLUSIVE', 'symgo:'))]
            out[p if (tier == 'quick' or os.environ.get('SEED_SCRATCH')) else p + '@' + tier] = {'tier': tier, 'exit': rc, 'detected': rc == 1, 'wall_s': round(time.time() - t0, 1), 'lines': [l[:260] for l in lines[:6]], 'on': 'scratch copy of /repo with the patch applied'}
    finally:
        shutil.rmtree(tmp, ignore_errors=True)
    return out
def results():
    rows = []
    for mf in sorted(glob.glob('/verif/seeded/*/meta.json')):
        m = json.load(open(mf))
        det = []
        for p, r in m.get('checks', {}).items():
            if m.get('kind') == 'neutral':
                det.append(f"{p} {r['tier']}: {'FALSE ALARM' if r['detected'] else ('inconclusive' if r['exit']==2 else 'quiet')} ({r['wall_s']} s)")
            else:
                det.append(f"{p} {r['tier']}: {'DETECTED' if r['detected'] else ('inconclusive' if r['exit']==2 else 'missed')} ({r['wall_s']} s)")
        first = ''
        for p, r in m.get('checks', {}).items():
            for l in r['lines']:
                if l.startswith('  harness'): first = l.strip()[:170]; break
            if first: break
        rows.append(f"| {m['id']} | {m['breaks']} | {m.get('what','')[:160]} | {m.get('needs','')[:200]} | {'; '.join(det)}{' -- ' + m['note'] if m.get('note') else ''} | {first} |")
    open('/verif/seeded/RESULTS.md', 'w').write("# Seeded changes (written by independent sub-agents from the property text only)\n\nEach was confirmed in a scratch worktree (builds, pinned suite 140/140, demonstration fails with the change and passes without) before being kept; the checks were then run with the patch applied to /repo (`git -C /repo apply`, restored straight afterwards) or, where noted in meta.json (`on`), to a scratch copy of /repo passed with `--repo` so that runs could proceed in parallel. A `--` note says when a change was missed by the checks as they stood and which strengthening detects it.\n\n| id | property | change | needs | checks | first violation line |\n|---|---|---|---|---|---|\n" + "\n".join(rows) + "\n")
    print(open('/verif/seeded/RESULTS.md').read())
cmd = sys.argv[1]
if cmd == 'ingest':
    sid = sys.argv[2]; tier = sys.argv[3] if len(sys.argv) > 3 else 'quick'
    src = os.environ.get('SEED_SRC', '/tmp/seed') + f'/{sid[:3]}.out'
    d = f'/verif/seeded/{sid}'
    os.makedirs(d, exist_ok=True)
    for f in os.listdir(src): shutil.copy(os.path.join(src, f), d)
    conf = confirm(sid)
    print(json.dumps(conf, indent=1)[:1500])
    ok = conf.get('patch_applies') and conf.get('builds') and conf.get('baseline_ok') and conf.get('demo_with_change') == 'fail' and conf.get('demo_without_change') == 'pass'
    meta = {'id': sid, 'breaks': sid[:3], 'confirmed': bool(ok), 'confirmation': conf, 'what': '', 'needs': '', 'ran': ['tools_seeded.py ingest ' + sid]}
    if not ok:
        json.dump(meta, open(os.path.join(d, 'meta.json'), 'w'), indent=1); print('NOT CONFIRMED'); sys.exit(1)
    meta['checks'] = run_checks_scratch(sid, tier, [sid[:3]]) if os.environ.get('SEED_SCRATCH') else run_checks(sid, tier, [sid[:3]])
    json.dump(meta, open(os.path.join(d, 'meta.json'), 'w'), indent=1)
    print(json.dumps(meta['checks'], indent=1))
elif cmd == 'ingestn':
    # a property-PRESERVING change: every related check must stay quiet
    sid = sys.argv[2]; tier = sys.argv[3] if len(sys.argv) > 3 else 'quick'
    src = os.environ.get('SEED_SRC', '/tmp/seedn') + f'/{sid[:3]}.out'
    d = f'/verif/seeded/{sid}'
    os.makedirs(d, exist_ok=True)
    for f in os.listdir(src): shutil.copy(os.path.join(src, f), d)
    conf = confirm_neutral(sid)
    print(json.dumps(conf, indent=1)[:1500])
    ok = conf.get('patch_applies') and conf.get('builds') and conf.get('baseline_ok') and conf.get('demo_with_change') == 'pass' and conf.get('demo_without_change') == 'pass'
    meta = {'id': sid, 'kind': 'neutral', 'breaks': 'none (preserves ' + sid[:3] + ')', 'confirmed': bool(ok), 'confirmation': conf, 'what': '', 'needs': '', 'ran': ['tools_seeded.py ingestn ' + sid]}
    if not ok:
        json.dump(meta, open(os.path.join(d, 'meta.json'), 'w'), indent=1); print('NOT CONFIRMED'); sys.exit(1)
    rel = related_props(sid)
    if os.environ.get('SEED_MAXREL'): rel = rel[:1 + int(os.environ['SEED_MAXREL'])]
    meta['checks'] = run_checks_scratch(sid, tier, rel)
    json.dump(meta, open(os.path.join(d, 'meta.json'), 'w'), indent=1)
    print(json.dumps(meta['checks'], indent=1))
elif cmd == 'run':
    sid = sys.argv[2]; tier = sys.argv[3] if len(sys.argv) > 3 else 'quick'
    props = sys.argv[4:] or [sid[:3]]
    d = f'/verif/seeded/{sid}'
    meta = json.load(open(os.path.join(d, 'meta.json')))
    meta.setdefault('checks', {}).update(run_checks(sid, tier, props))
    meta['ran'].append('tools_seeded.py run ' + ' '.join(sys.argv[2:]))
    json.dump(meta, open(os.path.join(d, 'meta.json'), 'w'), indent=1)
    print(json.dumps(meta['checks'], indent=1))
elif cmd == 'runscratch':
    sid = sys.argv[2]; tier = sys.argv[3] if len(sys.argv) > 3 else 'quick'
    props = sys.argv[4:] or [sid[:3]]
    d = f'/verif/seeded/{sid}'
    meta = json.load(open(os.path.join(d, 'meta.json')))
    meta.setdefault('checks', {}).update(run_checks_scratch(sid, tier, props, os.environ.get('SEED_EXTRA', '')))
    meta['ran'].append('tools_seeded.py runscratch ' + ' '.join(sys.argv[2:]))
    json.dump(meta, open(os.path.join(d, 'meta.json'), 'w'), indent=1)
    print(json.dumps(meta['checks'], indent=1))
elif cmd == 'results':
    results()
