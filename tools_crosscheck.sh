#!/bin/sh
# Development aid: run the quick tier of every property on the two other installed solvers and
# compare exit code, path count and obligation count with the z3 4.8.12 run (same encoding, other solver).
cd "$(dirname "$0")"
for p in ${@:-C01 C02 C03 C04 C05 C06 C07 C08 C09 C10 C11 C12 C13 C14 C15 C16 C17 C18 C19 C20}; do
  ref=$(./check $p quick --noevidence --selftests 0 2>&1 | tail -1 | sed 's/ wall=.*//')
  for s in z3-new cvc5; do
    got=$(./check $p quick --noevidence --selftests 0 --solver $s 2>&1 | tail -1 | sed 's/ wall=.*//')
    if [ "$ref" = "$got" ]; then echo "CROSS $p $s agree: $got"; else echo "CROSS $p $s DIFFER: z3=[$ref] $s=[$got]"; fi
  done
done
