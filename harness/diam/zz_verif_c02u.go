package diam

// C02 (continued): the 24-bit helpers of uintconv.go, kept in a file of their own because they are
// unexported: if a refactoring renames them only this harness goes inconclusive.

// zzC02_uint24: uint32to24 / uint24to32 for all 2^32 inputs (closed queries).
func zzC02_uint24() {
	n := vU32("n")
	b := uint32to24(n)
	vAssert(len(b) == 3, "uint32to24 yields 3 bytes")
	r := zzRef24(n)
	vAssert(b[0] == r[0] && b[1] == r[1] && b[2] == r[2], "uint32to24 is 24-bit big-endian")
	back := uint24to32(b)
	vAssert(back == n&0xffffff, "uint24to32(uint32to24(n)) == n mod 2^24")
	x := vBytes("x", 3)
	v := uint24to32(x)
	vAssert(v == uint32(x[0])<<16|uint32(x[1])<<8|uint32(x[2]), "uint24to32 is big-endian")
	vAssert(v < 1<<24, "uint24to32 < 2^24")
	vReach("C02_uint24")
}
