package diam

import "github.com/fiorix/go-diameter/v4/diam/dict"

// C09: dispatch selects the handler by index, then by name, then the catch-all.

func zzC09_mux() {
	d := vAbstractDict()
	app, code, flags := vU32("app"), vU32("code")&0xffffff, vU8("flags")
	isReq := flags&0x80 != 0
	m := &Message{Header: &Header{Version: 1, MessageLength: 20, CommandFlags: flags, CommandCode: code, ApplicationID: app, HopByHopID: 1, EndToEndID: 1}, dictionary: d}
	// the command resolves in the dictionary (ReadMessage guarantees it for every incoming message);
	// the abstract dictionary's short name is "XX"
	zzKnownCommand(d, app, code)
	mux := NewServeMux()
	var log []int
	mk := func(id int) Handler { return HandlerFunc(func(c Conn, m *Message) { log = append(log, id) }) }
	own := CommandIndex{AppID: app, Code: code, Request: isReq}
	suffix, other := "A", "R"
	if isReq {
		suffix, other = "R", "A"
	}
	expectIdx, expectName, expectAll := 0, 0, 0
	// registrations happen in a case-split order so that "latest wins" is exercised
	if zzFlag("idxOwn") {
		mux.HandleIdx(own, mk(1))
		expectIdx = 1
	}
	if zzFlag("idxOwnAgain") {
		mux.HandleIdx(own, mk(2))
		expectIdx = 2
	}
	if zzFlag("idxOtherApp") {
		app2 := vU32("app2")
		vAssume(app2 != app)
		mux.HandleIdx(CommandIndex{AppID: app2, Code: code, Request: isReq}, mk(3))
	}
	if zzFlag("idxOtherCode") {
		code2 := vU32("code2") & 0xffffff
		vAssume(code2 != code)
		mux.HandleIdx(CommandIndex{AppID: app, Code: code2, Request: isReq}, mk(4))
	}
	if zzFlag("idxOtherR") {
		mux.HandleIdx(CommandIndex{AppID: app, Code: code, Request: !isReq}, mk(5))
	}
	if zzFlag("nameOwn") {
		mux.Handle("XX"+suffix, mk(6))
		expectName = 6
	}
	if zzFlag("nameOwnAgain") {
		mux.HandleFunc("XX"+suffix, func(c Conn, m *Message) { log = append(log, 7) })
		expectName = 7
	}
	if zzFlag("nameOtherR") {
		mux.Handle("XX"+other, mk(8))
	}
	if zzFlag("nameOtherCmd") {
		mux.Handle("YY"+suffix, mk(9))
	}
	if zzFlag("all") {
		mux.Handle("ALL", mk(10))
		expectAll = 10
	}
	if zzFlag("allAgain") {
		mux.Handle("ALL", mk(11))
		expectAll = 11
	}
	mux.ServeDIAM(nil, m)
	// the decision table of the statement
	want := expectIdx
	if want == 0 {
		want = expectName
	}
	if want == 0 {
		want = expectAll
	}
	var report *ErrorReport
	select {
	case report = <-mux.ErrorReports():
	default:
	}
	vObserve("handlers", uint64(len(log)))
	if len(log) > 0 {
		vObserve("handler", uint64(log[0]))
	}
	vObserve("report", zzB2U(report != nil))
	if want != 0 {
		vAssert(len(log) == 1 && log[0] == want, "exactly the handler chosen by index, then name, then catch-all is called")
		vAssert(report == nil, "no error report when a handler ran")
	} else {
		vAssert(len(log) == 0, "no handler runs when none matches")
		vAssert(report != nil && report.Message == m, "an error report is offered when no handler matches")
	}
	// a registration made after a dispatch (the mux may have remembered how it resolved the message):
	// one key registered again, then the same message dispatched again
	switch vChoice("reregister", 4) {
	case 0:
		vReach("C09_mux")
		return
	case 1:
		mux.HandleIdx(own, mk(21))
		expectIdx = 21
	case 2:
		mux.Handle("XX"+suffix, mk(22))
		expectName = 22
	case 3:
		mux.Handle("ALL", mk(23))
		expectAll = 23
	}
	log = nil
	mux.ServeDIAM(nil, m)
	want = expectIdx
	if want == 0 {
		want = expectName
	}
	if want == 0 {
		want = expectAll
	}
	vAssert(len(log) == 1 && log[0] == want, "registering a key again replaces the earlier handler, also after messages have been dispatched")
	vReach("C09_mux")
}

// zzC09_embedded: the same decision table on the embedded dictionaries. The message's (application,
// command) ranges over every loaded application id (and an unknown one) x every command code any
// dictionary defines (and an unknown one); the command's short name is taken from the reference
// resolver B.5 (the message's own application, else the base application) over the public list of
// applications; name handlers for every *other* short name in the dictionaries are registered too
// and must never run.
func zzC09_embedded() {
	d := dict.Default
	var appIDs, codes []uint32
	var shorts []string
	addU := func(l []uint32, x uint32) []uint32 {
		for _, y := range l {
			if y == x {
				return l
			}
		}
		return append(l, x)
	}
	for _, a := range d.Apps() {
		appIDs = addU(appIDs, a.ID)
		for _, c := range a.Command {
			codes = addU(codes, c.Code)
			dup := false
			for _, sname := range shorts {
				if sname == c.Short {
					dup = true
				}
			}
			if !dup {
				shorts = append(shorts, c.Short)
			}
		}
	}
	appIDs = append(appIDs, 999)
	codes = append(codes, 8388000)
	app := appIDs[vChoice("app", len(appIDs))]
	code := codes[vChoice("code", len(codes))]
	ref := ""
	for _, want := range [2]uint32{app, 0} {
		for _, a := range d.Apps() {
			if a.ID != want {
				continue
			}
			for _, c := range a.Command {
				if c.Code == code {
					ref = c.Short // the most recently loaded definition wins
				}
			}
		}
		if ref != "" {
			break
		}
	}
	isReq := zzFlag("request")
	flags := uint8(0)
	suffix := "A"
	if isReq {
		flags, suffix = 0x80, "R"
	}
	m := &Message{Header: &Header{Version: 1, MessageLength: 20, CommandFlags: flags, CommandCode: code, ApplicationID: app, HopByHopID: 1, EndToEndID: 1}, dictionary: d}
	mux := NewServeMux()
	var log []int
	mk := func(id int) Handler { return HandlerFunc(func(c Conn, m *Message) { log = append(log, id) }) }
	expectIdx, expectName, expectAll := 0, 0, 0
	if zzFlag("idxOwn") {
		mux.HandleIdx(CommandIndex{AppID: app, Code: code, Request: isReq}, mk(1))
		expectIdx = 1
	}
	for _, sname := range shorts {
		if sname == ref {
			if zzFlag("nameOwn") {
				mux.Handle(sname+suffix, mk(6))
				expectName = 6
			}
		} else {
			mux.Handle(sname+suffix, mk(9)) // another command's name: never called
		}
	}
	if zzFlag("all") {
		mux.Handle("ALL", mk(10))
		expectAll = 10
	}
	mux.ServeDIAM(nil, m)
	var report *ErrorReport
	select {
	case report = <-mux.ErrorReports():
	default:
	}
	if ref == "" {
		// neither the message's application nor the base application defines the command (ReadMessage
		// rejects such a message): whatever runs, it is not a handler registered for another command
		for _, id := range log {
			vAssert(id == 1 || id == 10, "no handler registered under another command's name is ever called")
		}
		vAssert(len(log) <= 1 && (len(log) == 1) == (report == nil), "one handler or one error report")
		vReach("C09_embedded")
		return
	}
	want := expectIdx
	if want == 0 {
		want = expectName
	}
	if want == 0 {
		want = expectAll
	}
	if want != 0 {
		vAssert(len(log) == 1 && log[0] == want, "embedded dictionaries: exactly the handler chosen by index, then by the command's short name, then the catch-all is called")
		vAssert(report == nil, "no error report when a handler ran")
	} else {
		vAssert(len(log) == 0, "no handler runs when none matches")
		vAssert(report != nil && report.Message == m, "an error report is offered when no handler matches")
	}
	vReach("C09_embedded")
}
