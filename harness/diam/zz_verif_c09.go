package diam

// C09: dispatch selects the handler by index, then by name, then the catch-all.

func zzFlag(tag string) bool { return vChoice(tag, 2) == 1 }

func zzC09_mux() {
	d := vAbstractDict()
	app, code, flags := vU32("app"), vU32("code")&0xffffff, vU8("flags")
	isReq := flags&0x80 != 0
	m := &Message{Header: &Header{Version: 1, MessageLength: 20, CommandFlags: flags, CommandCode: code, ApplicationID: app, HopByHopID: 1, EndToEndID: 1}, dictionary: d}
	// the command resolves in the dictionary (ReadMessage guarantees it for every incoming message);
	// the abstract dictionary's short name is "XX"
	zzKnownCommand(d, app, code)
	mux := NewServeMux()
	var log []int
	mk := func(id int) Handler { return HandlerFunc(func(c Conn, m *Message) { log = append(log, id) }) }
	own := CommandIndex{AppID: app, Code: code, Request: isReq}
	suffix, other := "A", "R"
	if isReq {
		suffix, other = "R", "A"
	}
	expectIdx, expectName, expectAll := 0, 0, 0
	// registrations happen in a case-split order so that "latest wins" is exercised
	if zzFlag("idxOwn") {
		mux.HandleIdx(own, mk(1))
		expectIdx = 1
	}
	if zzFlag("idxOwnAgain") {
		mux.HandleIdx(own, mk(2))
		expectIdx = 2
	}
	if zzFlag("idxOtherApp") {
		app2 := vU32("app2")
		vAssume(app2 != app)
		mux.HandleIdx(CommandIndex{AppID: app2, Code: code, Request: isReq}, mk(3))
	}
	if zzFlag("idxOtherCode") {
		code2 := vU32("code2") & 0xffffff
		vAssume(code2 != code)
		mux.HandleIdx(CommandIndex{AppID: app, Code: code2, Request: isReq}, mk(4))
	}
	if zzFlag("idxOtherR") {
		mux.HandleIdx(CommandIndex{AppID: app, Code: code, Request: !isReq}, mk(5))
	}
	if zzFlag("nameOwn") {
		mux.Handle("XX"+suffix, mk(6))
		expectName = 6
	}
	if zzFlag("nameOwnAgain") {
		mux.HandleFunc("XX"+suffix, func(c Conn, m *Message) { log = append(log, 7) })
		expectName = 7
	}
	if zzFlag("nameOtherR") {
		mux.Handle("XX"+other, mk(8))
	}
	if zzFlag("nameOtherCmd") {
		mux.Handle("YY"+suffix, mk(9))
	}
	if zzFlag("all") {
		mux.Handle("ALL", mk(10))
		expectAll = 10
	}
	if zzFlag("allAgain") {
		mux.Handle("ALL", mk(11))
		expectAll = 11
	}
	mux.ServeDIAM(nil, m)
	// the decision table of the statement
	want := expectIdx
	if want == 0 {
		want = expectName
	}
	if want == 0 {
		want = expectAll
	}
	var report *ErrorReport
	select {
	case report = <-mux.ErrorReports():
	default:
	}
	vObserve("handlers", uint64(len(log)))
	if len(log) > 0 {
		vObserve("handler", uint64(log[0]))
	}
	vObserve("report", zzB2U(report != nil))
	if want != 0 {
		vAssert(len(log) == 1 && log[0] == want, "exactly the handler chosen by index, then name, then catch-all is called")
		vAssert(report == nil, "no error report when a handler ran")
	} else {
		vAssert(len(log) == 0, "no handler runs when none matches")
		vAssert(report != nil && report.Message == m, "an error report is offered when no handler matches")
	}
	vReach("C09_mux")
}
