package diam

import (
	"github.com/fiorix/go-diameter/v4/diam/datatype"
	"github.com/fiorix/go-diameter/v4/diam/dict"
)

// C01b / C02c / C02d: messages assembled through the public API.

// zzMenuAVP builds one AVP of the chosen menu kind together with its reference image and records
// the dictionary type the decoder must see for its code.
func zzMenuAVP(kind int, d *dict.Parser, app uint32) (a *AVP, ref []byte, ty datatype.TypeID) {
	code := vU32("code")
	a, ref, ty = zzMenuAVP1(kind, code)
	// the dictionary in use defines the code with that type (same dictionary for writing and reading)
	da, err := d.FindAVPWithVendor(app, code, a.VendorID)
	vAssume(err == nil && da.Data.Type == ty)
	if g, ok := a.Data.(*GroupedAVP); ok {
		dm, e := d.FindAVPWithVendor(app, g.AVP[0].Code, 0)
		vAssume(e == nil && dm.Data.Type == datatype.UTF8StringType)
	}
	return a, ref, ty
}

func zzMenuAVP1(kind int, code uint32) (a *AVP, ref []byte, ty datatype.TypeID) {
	switch kind {
	case 0: // Unsigned32, M flag
		x := vU32("u32")
		return NewAVP(code, 0x40, 0, datatype.Unsigned32(x)), zzRefAVP(code, 0x40, 0, zzRefBE32(x)), datatype.Unsigned32Type
	case 1: // odd-length OctetString (padding on the wire)
		n := vLen("slen", 0, 3)
		s := vBytes("str", n)
		return NewAVP(code, 0, 0, datatype.OctetString(s)), zzRefAVP(code, 0, 0, s), datatype.OctetStringType
	case 2: // vendor-specific Unsigned64 (V flag set by NewAVP from the vendor id)
		x := vU64("u64")
		vendor := vU32("vendor")
		vAssume(vendor != 0 && vendor != 0xffffffff)
		return NewAVP(code, 0x40, vendor, datatype.Unsigned64(x)), zzRefAVP(code, 0xc0, vendor, zzRefBE64(x)), datatype.Unsigned64Type
	case 3: // IPv4 address
		b := vBytes("addr4", 4)
		return NewAVP(code, 0x40, 0, datatype.Address(b)), zzRefAVP(code, 0x40, 0, append([]byte{0, 1}, b...)), datatype.AddressType
	case 4: // grouped with one odd-length member
		mc := vU32("mcode")
		s := vBytes("gstr", 1)
		g := &GroupedAVP{AVP: []*AVP{NewAVP(mc, 0, 0, datatype.UTF8String(s))}}
		return NewAVP(code, 0x40, 0, g), zzRefAVP(code, 0x40, 0, zzRefAVP(mc, 0, 0, s)), datatype.GroupedType
	}
	panic("bad menu kind")
}

// zzC02_message: op sequences of length <= OPS over {NewAVP, AddAVP, InsertAVP} x menu.
// After every prefix: Header.MessageLength == len(Serialize()) == the 24-bit field in the bytes;
// at the end: bytes == reference message; WriteTo through a dirtied pooled buffer writes the same
// bytes (padding zero on the wire); reading back gives the same header and AVP tree.
type zzC02Marsh struct {
	L []*AVP `avp:"Q"`
}

func zzC02_message() {
	d := vAbstractDict()
	app := vU32("app")
	flags, cmd := vU8("flags"), vU32("cmd")&0xffffff
	hbh, e2e := vU32("hbh"), vU32("e2e")
	vAssume(hbh != 0 && e2e != 0) // zero ids are replaced by random ones in NewMessage (documented API behaviour)
	m := NewMessage(cmd, flags, app, hbh, e2e, d)
	nops := vLen("ops", 0, vParam("OPS", 2))
	var refAVPs [][]byte
	var want []*AVP
	for i := 0; i < nops; i++ {
		kind := vChoice("menu", vParam("MENU", 5))
		a, ref, _ := zzMenuAVP(kind, d, app)
		switch vChoice("op", vParam("OPKINDS", 4)) {
		case 3:
			// Marshal of a struct holding the ready-made AVP: it replaces whatever the message held
			if _, derr := d.FindAVP(app, "Q"); derr != nil {
				continue // the dictionary does not define the tag's name: Marshal refuses, message unchanged
			}
			merr := m.Marshal(&zzC02Marsh{L: []*AVP{a}})
			vAssert(merr == nil, "Marshal of ready-made AVPs succeeds")
			refAVPs = [][]byte{ref}
			want = []*AVP{a}
		case 0:
			na, err := m.NewAVP(a.Code, a.Flags, a.VendorID, a.Data)
			vAssert(err == nil && na != nil, "NewAVP by numeric code succeeds")
			a = na
			refAVPs = append(refAVPs, ref)
			want = append(want, a)
		case 1:
			m.AddAVP(a)
			refAVPs = append(refAVPs, ref)
			want = append(want, a)
		case 2:
			m.InsertAVP(a)
			refAVPs = append([][]byte{ref}, refAVPs...)
			want = append([]*AVP{a}, want...)
		}
		b, err := m.Serialize()
		vAssert(err == nil, "message serialises")
		vAssert(int(m.Header.MessageLength) == len(b), "C02: Header.MessageLength equals the serialised size after every operation")
		vAssert(int(b[1])<<16|int(b[2])<<8|int(b[3]) == len(b), "C02: the length field on the wire equals the serialised size")
	}
	// reference message
	total := 20
	for _, r := range refAVPs {
		total += len(r)
	}
	ref := make([]byte, 0, total)
	hdr := zzRefHeader(1, uint32(total), flags, cmd, app, hbh, e2e)
	ref = append(ref, hdr[:]...)
	for _, r := range refAVPs {
		ref = append(ref, r...)
	}
	b, err := m.Serialize()
	vAssert(err == nil, "message serialises")
	zzBytesEq(b, ref, "C02: message bytes equal the reference RFC 6733 encoding")
	vObserveBytes("message", b)
	vObserve("MessageLength", uint64(m.Header.MessageLength))
	// WriteTo through the pooled serialisation buffer, dirtied by an earlier, longer message
	dirty := NewMessage(1, 0, 0, 1, 1, d)
	dirty.NewAVP(uint32(1), 0, 0, datatype.OctetString(vBytes("dirt", vParam("DIRT", 40))))
	dirty.WriteTo(&zzRecWriter{})
	w := &zzRecWriter{}
	n, werr := m.WriteTo(w)
	vAssert(werr == nil && int(n) == len(ref) && w.calls == 1, "WriteTo writes the whole message once")
	vObserveBytes("wire", w.got)
	zzBytesEq(w.got, ref, "C02: bytes on the wire equal the reference encoding (padding zero) even through a reused buffer")
	// C01: read back with a dictionary that knows the codes
	if vParam("READBACK", 1) == 1 {
		zzKnownCommand(d, app, cmd)
		back, rerr := ReadMessage(zzNewReader(b), d)
		vAssert(rerr == nil, "C01: serialised message reads back")
		if rerr == nil {
			h, g := m.Header, back.Header
			vAssert(g.Version == 1 && g.MessageLength == h.MessageLength && g.CommandFlags == h.CommandFlags && g.CommandCode == h.CommandCode &&
				g.ApplicationID == h.ApplicationID && g.HopByHopID == h.HopByHopID && g.EndToEndID == h.EndToEndID, "C01: header fields survive")
			if len(back.AVP) == len(want) {
				for i := range want {
					vAssert(back.AVP[i].Code == want[i].Code && back.AVP[i].Flags == want[i].Flags && back.AVP[i].VendorID == want[i].VendorID, "C01: AVP order, code, flags, vendor id survive")
				}
				b2, e2 := back.Serialize()
				vAssert(e2 == nil, "C01: read-back message serialises")
				zzBytesEq(b2, b, "C01: serialising again yields identical bytes")
			}
		}
	}
	vReach("C02_message")
}
