package diam

// Harness intrinsics: body-less declarations intercepted by the symgo engine.
// The native replay build uses zz_verif_rt_native.go instead of this file.

import (
	"io"
	"sync"

	"github.com/fiorix/go-diameter/v4/diam/dict"
)

func vU8(tag string) uint8
func vU16(tag string) uint16
func vU32(tag string) uint32
func vU64(tag string) uint64
func vPick32(tag string, vals ...uint32) uint32
func vBool(tag string) bool
func vLen(tag string, lo, hi int) int
func vInt(tag string, lo, hi int) int
func vChoice(tag string, n int) int
func vBytes(tag string, n int) []byte
func vAssume(c bool)
func vAssert(c bool, label string)
func vNoPanic()
func vReach(tag string)
func vObserve(tag string, v uint64)
func vObserveBytes(tag string, b []byte)
func vKnown(id string, c bool) bool
func vParam(name string, def int) int
func vSymbolic() bool
func vAllocLimit(limit int)
func vAllocCheck()
func vAllocBytes() int
func vMaxDepth() int
func vFmtPanics() int
func vPoolMayDrop(on bool)
func vAbstractDict() *dict.Parser
func vYield()
func vJitter()
func vQuiesce()
func vAdvance() bool
func vNow() int64
func vAutoAdvance(on bool)
func vPendingTimers() int
func vLeaks() int
func vHeld(mu *sync.Mutex) bool
func vRecovered() int

func vDictFile(f *dict.File) io.Reader
