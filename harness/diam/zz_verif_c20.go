package diam

import (
	"github.com/fiorix/go-diameter/v4/diam/datatype"
)

// C20: AVP search returns exactly the AVPs a reference tree walk finds.

// zzBuildTree builds a list of sibling AVPs; shape case-split (children 0..2, depth <= D, node budget),
// codes symbolic (so repeated codes, absent codes and groups-in-groups are solver-chosen).
func zzBuildTree(depth int, budget *int) []*AVP {
	n := vLen("children", 0, 2)
	var out []*AVP
	for i := 0; i < n && *budget > 0; i++ {
		*budget--
		code := vU32("code")
		if depth > 0 && vBool("group") {
			g := &GroupedAVP{AVP: zzBuildTree(depth-1, budget)}
			out = append(out, NewAVP(code, 0x40, 0, g))
		} else {
			out = append(out, NewAVP(code, 0, 0, datatype.Unsigned32(uint32(i))))
		}
		// AVP.Length is a snapshot taken when the AVP was created (a group filled afterwards, or an AVP
		// built as a literal, carries a stale value): the search must depend on the tree alone
		out[len(out)-1].Length = int(vU32("cachedlen") & 0xffffff)
	}
	return out
}

// zzRefWalk is the reference pre-order walk (document order).
func zzRefWalk(avps []*AVP, code uint32, out []*AVP) []*AVP {
	for _, a := range avps {
		if a.Code == code {
			out = append(out, a)
		}
		if g, ok := a.Data.(*GroupedAVP); ok {
			out = zzRefWalk(g.AVP, code, out)
		}
	}
	return out
}

// zzRefPath is the reference strict path walk.
func zzRefPath(avps []*AVP, path []uint32) []*AVP {
	if len(path) == 0 {
		return avps
	}
	var out []*AVP
	for _, a := range avps {
		if a.Code != path[0] {
			continue
		}
		if len(path) == 1 {
			out = append(out, a)
			continue
		}
		if g, ok := a.Data.(*GroupedAVP); ok {
			out = append(out, zzRefPath(g.AVP, path[1:])...)
		}
	}
	return out
}

func zzC20_find() {
	d := vAbstractDict()
	app := vU32("app")
	m := NewMessage(257, 0x80, app, 1, 1, d)
	budget := vParam("NODES", 5)
	for _, a := range zzBuildTree(vParam("DEPTH", 2), &budget) {
		m.AddAVP(a)
	}
	code := vU32("query")
	// the query is given by number (uint32 or int) or by name; a name (and an int) resolves through the
	// message's dictionary, whose answer is symbolic
	var q interface{} = code
	switch vChoice("querykind", 3) {
	case 1:
		q = int(code)
	case 2:
		q = "Q"
	}
	if _, isU32 := q.(uint32); !isU32 {
		da, derr := d.FindAVPWithVendor(app, q, 0)
		if derr != nil {
			// the dictionary cannot resolve the query: an error, never some AVP
			f, e1 := m.FindAVP(q, 0)
			fs, e2 := m.FindAVPs(q, 0)
			fp, e3 := m.FindAVPsWithPath([]interface{}{q}, 0)
			_, _, _ = e1, e2, e3
			vAssert(f == nil && len(fs) == 0 && len(fp) == 0, "an unresolvable name yields an error or an empty result, never some AVP")
			vReach("C20_find")
			return
		}
		code = da.Code
	}
	want := zzRefWalk(m.AVP, code, nil)
	first, err := m.FindAVP(q, 0)
	if len(want) == 0 {
		_ = err
		vAssert(first == nil, "absent AVP yields an error or an empty result, never a different AVP")
	} else {
		vAssert(err == nil && first == want[0], "FindAVP returns the first AVP in depth-first document order")
	}
	all, err2 := m.FindAVPs(q, 0)
	vObserve("found", uint64(len(all)))
	vObserve("first", zzB2U(first != nil))
	if len(want) == 0 {
		_ = err2
		vAssert(len(all) == 0, "absent AVP: FindAVPs yields an error / empty result")
	} else {
		vAssert(err2 == nil && len(all) == len(want), "FindAVPs returns every AVP with the code")
		if len(all) == len(want) {
			for i := range want {
				vAssert(all[i] == want[i], "FindAVPs returns them in document order")
			}
		}
	}
	// by path (length 1..PATH), also through non-grouped AVPs and absent codes
	pl := vLen("pathlen", 1, vParam("PATH", 2))
	path := make([]uint32, pl)
	ipath := make([]interface{}, pl)
	for i := range path {
		path[i] = vU32("pathcode")
		ipath[i] = path[i]
	}
	if _, isU32 := q.(uint32); !isU32 {
		// the path's first element given the same way as the query (by int / by name)
		path[0], ipath[0] = code, q
	}
	wantp := zzRefPath(m.AVP, path)
	gotp, err3 := m.FindAVPsWithPath(ipath, 0)
	vObserve("bypath", uint64(len(gotp)))
	vAssert((err3 == nil || len(wantp) == 0) && len(gotp) == len(wantp), "FindAVPsWithPath returns exactly the AVPs reached by the path (an error or an empty result when there is none)")
	if len(gotp) == len(wantp) {
		for i := range wantp {
			vAssert(gotp[i] == wantp[i], "FindAVPsWithPath returns them in document order")
		}
	}
	vReach("C20_find")
}
