package diam

// C08: on one connection handlers run one at a time, in arrival order.

type zzEv struct {
	conn  int
	hbh   uint32
	enter bool
}

func zzC08_order() {
	d := vAbstractDict()
	zzKnownCommand(d, 0, 257)
	nconn := vLen("conns", 1, vParam("CONNS", 2))
	nmsg := vParam("MSGS", 2)
	var log []zzEv
	release := make([]chan struct{}, nconn)
	conns := make([]Conn, nconn)
	trans := make([]*zzTransport, nconn)
	running := make([]int, nconn)
	overlap := false
	wantCloseNotify := nconn == 1 && zzFlag("closeNotifyInFirstHandler")
	h := HandlerFunc(func(c Conn, m *Message) {
		ci := -1
		for i := range trans {
			if trans[i] != nil && trans[i].name == c.RemoteAddr().String() {
				ci = i
			}
		}
		if ci < 0 {
			return
		}
		running[ci]++
		if running[ci] > 1 {
			overlap = true
		}
		if wantCloseNotify {
			// the first handler asks for the close notification (as sm.Client's watchdog does): from here
			// on the connection is read through the library's pipe copier
			wantCloseNotify = false
			_ = c.(CloseNotifier).CloseNotify()
		}
		log = append(log, zzEv{ci, m.Header.HopByHopID, true})
		<-release[ci]
		log = append(log, zzEv{ci, m.Header.HopByHopID, false})
		running[ci]--
	})
	// the connection's handler: the function itself, or a ServeMux dispatching to it by short name
	// (abstract dictionary: "XX"), by index, or as catch-all
	var top Handler = h
	var mux *ServeMux
	switch vChoice("dispatch", 4) {
	case 1:
		mux = NewServeMux()
		mux.Handle("XXR", h)
		mux.Handle("XXA", h)
		top = mux
	case 2:
		mux = NewServeMux()
		mux.HandleIdx(CommandIndex{AppID: 0, Code: 257, Request: true}, h)
		mux.HandleIdx(CommandIndex{AppID: 0, Code: 257, Request: false}, h)
		top = mux
	case 3:
		mux = NewServeMux()
		mux.Handle("ALL", h)
		top = mux
	}
	// the connections are made one by one with NewConn (each gets a Server of its own, as Dial does), or
	// accepted by one Server.Serve from an in-memory listener (they share the Server)
	viaServe := nconn > 1 && zzFlag("viaServe")
	var lst *zzListener
	if viaServe {
		lst = &zzListener{ch: make(chan zzAccept, 8)}
		srv := &Server{Handler: top, Dict: d}
		go srv.Serve(lst)
	}
	for i := 0; i < nconn; i++ {
		release[i] = make(chan struct{}, 8)
		trans[i] = zzNewTransport([3]string{"198.51.100.1:1000", "198.51.100.2:1000", "198.51.100.3:1000"}[i%3])
		if viaServe {
			lst.ch <- zzAccept{c: trans[i]}
			continue
		}
		c, err := NewConn(trans[i], "zz", top, d)
		vAssume(err == nil)
		conns[i] = c
	}
	if viaServe {
		vQuiesce()
	}
	// arrival pattern per connection: all messages in one segment / one segment per message /
	// the first message byte by byte (header split at every offset would be 19 more cases: the
	// fragmenting behaviour of ReadMessage itself is C05's subject)
	perConn := vParam("PERCONN", 0) == 1
	kind0, arrival0 := vChoice("msgkind", 3), vChoice("arrival", 3)
	feeds := make([]func(), nconn)
	for i := 0; i < nconn; i++ {
		i := i
		var all []byte
		// requests, answers, or alternating: the rule holds for every kind of message
		// (without PERCONN the connections still differ in message kind: kind0, kind0+1, ...)
		kind, arrival := (kind0+i)%3, arrival0
		if perConn && i > 0 {
			kind, arrival = vChoice("msgkind", 3), vChoice("arrival", 3)
		}
		for k := 0; k < nmsg; k++ {
			flags := uint8(0x80)
			if kind == 1 || (kind == 2 && k%2 == 0) {
				flags = 0
			}
			all = append(all, zzPlainMessage(257, flags, 0, uint32(100*(i+1)+k))...)
		}
		feeds[i] = func() {
			switch arrival {
			case 0:
				trans[i].in <- all
			case 1:
				for k := 0; k < nmsg; k++ {
					trans[i].in <- all[20*k : 20*k+20]
				}
			case 2:
				for j := 0; j < 3; j++ {
					trans[i].in <- all[j : j+1]
				}
				trans[i].in <- all[3:]
			}
		}
	}
	// all connections receive at once, or (staggered) the first connection's handler is already blocked
	// and the application has meanwhile fetched the mux's error-report channel (as an error-consuming
	// loop does on every iteration) when the other connections' messages arrive
	if nconn > 1 && !viaServe && zzFlag("staggered") {
		feeds[0]()
		vQuiesce()
		if mux != nil {
			go func() { _ = mux.ErrorReports() }()
			vQuiesce()
		}
		for i := 1; i < nconn; i++ {
			feeds[i]()
		}
	} else {
		for i := 0; i < nconn; i++ {
			feeds[i]()
		}
	}
	vQuiesce()
	// every connection has entered exactly its first handler: a blocked handler on one connection
	// does not delay dispatch on another, and the second message is not started
	for i := 0; i < nconn; i++ {
		n := 0
		for _, e := range log {
			if e.conn == i && e.enter {
				n++
				vAssert(e.hbh == uint32(100*(i+1)), "the first message is dispatched first")
			}
		}
		vAssert(n == 1, "each connection has started exactly one handler while it blocks")
	}
	// release handlers one at a time in a case-split connection order
	released := make([]int, nconn)
	for step := 0; step < nconn*nmsg; step++ {
		ci := vChoice("release", nconn)
		release[ci] <- struct{}{}
		released[ci]++
		vQuiesce()
	}
	vAssert(!overlap, "the handler for a message is not started before the previous one has returned")
	// per connection: enter(k) exit(k) enter(k+1) ... in arrival order, as far as it was released
	for i := 0; i < nconn; i++ {
		exits := 0
		for _, e := range log {
			if e.conn == i && !e.enter {
				exits++
			}
		}
		wantExits := released[i]
		if wantExits > nmsg {
			wantExits = nmsg
		}
		vAssert(exits == wantExits, "every message whose predecessors were released is dispatched: none is lost or held back")
		k := 0
		open := false
		for _, e := range log {
			if e.conn != i {
				continue
			}
			if e.enter {
				vAssert(!open && e.hbh == uint32(100*(i+1)+k), "handlers see messages in the order the peer sent them, one at a time")
				open = true
			} else {
				vAssert(open && e.hbh == uint32(100*(i+1)+k), "exit matches the entered message")
				open = false
				k++
			}
		}
	}
	vReach("C08_order")
}
