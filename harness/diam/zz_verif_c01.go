package diam

import (
	"github.com/fiorix/go-diameter/v4/diam/dict"
	"math"
	"net"
	"time"

	"github.com/fiorix/go-diameter/v4/diam/datatype"
)

// C01 / C02: per-data-type round trip and comparison with an independent RFC 6733 reference codec.

const zzNumKinds = 21

// zzValue builds a valid value of the chosen kind from symbolic material and returns it together
// with its reference payload encoding (written from RFC 6733 4.2/4.3, sharing no code with diam)
// and the dictionary type the decoder must be told.
func zzValue(kind int, L int) (v datatype.Type, ref []byte, ty datatype.TypeID) {
	switch kind {
	case 0:
		x := vU32("u32")
		return datatype.Unsigned32(x), zzRefBE32(x), datatype.Unsigned32Type
	case 1:
		x := vU64("u64")
		return datatype.Unsigned64(x), zzRefBE64(x), datatype.Unsigned64Type
	case 2:
		x := vU32("i32")
		return datatype.Integer32(int32(x)), zzRefBE32(x), datatype.Integer32Type
	case 3:
		x := vU64("i64")
		return datatype.Integer64(int64(x)), zzRefBE64(x), datatype.Integer64Type
	case 4:
		x := vU32("enum")
		return datatype.Enumerated(int32(x)), zzRefBE32(x), datatype.EnumeratedType
	case 5:
		x := vU32("f32bits") // every bit pattern: NaNs, denormals, infinities
		return datatype.Float32(math.Float32frombits(x)), zzRefBE32(x), datatype.Float32Type
	case 6:
		x := vU64("f64bits")
		return datatype.Float64(math.Float64frombits(x)), zzRefBE64(x), datatype.Float64Type
	case 7:
		// Time: any whole second in the two-era window unix+2208988800 in [2^31, 2^32+2^31)
		ntp := vU64("ntp")
		vAssume(ntp >= 1<<31 && ntp < 1<<32+1<<31)
		unix := int64(ntp) - 2208988800
		return datatype.Time(time.Unix(unix, 0)), zzRefBE32(uint32(ntp)), datatype.TimeType
	case 8:
		b := vBytes("octets", L)
		return datatype.OctetString(b), b, datatype.OctetStringType
	case 9:
		b := vBytes("utf8", L)
		return datatype.UTF8String(b), b, datatype.UTF8StringType
	case 10:
		b := vBytes("ident", L)
		return datatype.DiameterIdentity(b), b, datatype.DiameterIdentityType
	case 11:
		b := vBytes("uri", L)
		return datatype.DiameterURI(b), b, datatype.DiameterURIType
	case 12:
		b := vBytes("ipf", L)
		return datatype.IPFilterRule(b), b, datatype.IPFilterRuleType
	case 13:
		b := vBytes("qos", L)
		return datatype.QoSFilterRule(b), b, datatype.QoSFilterRuleType
	case 14:
		b := vBytes("ip4", 4)
		return datatype.IPv4(net.IP(b)), b, datatype.IPv4Type
	case 15:
		b := vBytes("ip6", 16)
		return datatype.IPv6(net.IP(b)), b, datatype.IPv6Type
	case 16:
		b := vBytes("addr4", 4)
		return datatype.Address(b), append([]byte{0, 1}, b...), datatype.AddressType
	case 17:
		b := vBytes("addr6", 16)
		// a v4-mapped 16-byte value may legally be sent as family 1 (4 bytes): not a distinct case here
		vAssume(!zzIsV4Mapped(b))
		return datatype.Address(b), append([]byte{0, 2}, b...), datatype.AddressType
	case 18:
		// another address family: 2 family bytes + >= 1 data byte, carried verbatim
		b := vBytes("addrX", 2+1+L)
		fam := uint16(b[0])<<8 | uint16(b[1])
		vAssume(fam != 0 && fam != 1 && fam != 2 && fam != 65535)
		vKnown("KF-C01-address-otherfamily-len", len(b) == 4 || len(b) == 16)
		return datatype.Address(b), b, datatype.AddressType
	case 19:
		b := vBytes("unknown", L)
		return datatype.Unknown(b), b, datatype.UnknownType
	case 20:
		// grouped: two members (an Unsigned32 and an odd-length OctetString), built through the API
		c1, c2 := vU32("gcode1"), vU32("gcode2")
		x := vU32("gu32")
		s := vBytes("gstr", 3)
		g := &GroupedAVP{}
		g.AddAVP(NewAVP(c1, 0x40, 0, datatype.Unsigned32(x)))
		g.AddAVP(NewAVP(c2, 0, 0, datatype.OctetString(s)))
		ref := zzRefAVP(c1, 0x40, 0, zzRefBE32(x))
		ref = append(ref, zzRefAVP(c2, 0, 0, s)...)
		return g, ref, datatype.GroupedType
	}
	panic("bad kind")
}

func zzIsV4Mapped(b []byte) bool {
	for i := 0; i < 10; i++ {
		if b[i] != 0 {
			return false
		}
	}
	return b[10] == 0xff && b[11] == 0xff
}

// zzC01_avp: for every data type: NewAVP -> Serialize == reference image; DecodeAVP of the image gives
// the same code / flags / vendor / typed value; serialising again yields identical bytes.
func zzC01_avp() {
	kind := vChoice("kind", zzNumKinds)
	L := 0
	switch kind {
	case 8, 9, 10, 11, 12, 13, 18, 19:
		L = vLen("L", 0, vParam("L", 9))
	}
	code, flags, vendor := vU32("code"), vU8("flags"), vU32("vendor")
	// V flag and vendor id go together (validity: a vendor id without the flag has no wire image;
	// NewAVP sets the flag itself when a vendor id is given)
	vAssume(flags&0x80 != 0 || vendor == 0)
	vAssume(vendor != 0xffffffff)
	val, refPayload, ty := zzValue(kind, L)
	app := vU32("app")
	d := vAbstractDict()
	da, lerr := d.FindAVPWithVendor(app, code, vendor)
	if ty == datatype.UnknownType {
		vAssume(lerr != nil) // carried as opaque data: the dictionary does not define the code
	} else {
		vAssume(lerr == nil && da.Data.Type == ty)
	}
	if kind == 20 {
		// member codes resolve to their types too
		for i, mt := range []datatype.TypeID{datatype.Unsigned32Type, datatype.OctetStringType} {
			g := val.(*GroupedAVP)
			dm, e := d.FindAVPWithVendor(app, g.AVP[i].Code, 0)
			vAssume(e == nil && dm.Data.Type == mt)
		}
	}
	a := NewAVP(code, flags, vendor, val)
	img, err := a.Serialize()
	vAssert(err == nil, "valid AVP serialises")
	vObserveBytes("image", img)
	ref := zzRefAVP(code, flags, vendor, refPayload)
	zzBytesEq(img, ref, "C02: AVP image equals the reference RFC 6733 encoding")
	vAssert(a.Len() == len(ref), "C02: Len is the padded size")
	back, derr := DecodeAVP(img, app, d)
	vAssert(derr == nil, "C01: image of a valid AVP decodes")
	vObserve("decoded", zzB2U(derr == nil))
	if derr == nil {
		vObserve("back.Code", uint64(back.Code))
		vObserveBytes("back.Data", back.Data.Serialize())
		vAssert(back.Code == code && back.Flags == flags && back.VendorID == vendor, "C01: code, flags and vendor id survive the round trip")
		vAssert(back.Data.Type() == val.Type(), "C01: data type survives the round trip")
		zzBytesEq(back.Data.Serialize(), val.Serialize(), "C01: typed value survives the round trip")
		zzSameValue(kind, val, back.Data)
		img2, err2 := back.Serialize()
		vAssert(err2 == nil, "C01: decoded AVP serialises")
		zzBytesEq(img2, img, "C01: serialising again yields identical bytes")
	}
	// decode direction of the reference image: typed value equals what was encoded
	vReach("C01_avp")
}

// zzSameValue compares typed values natively (beyond their serialisation).
func zzSameValue(kind int, want, got datatype.Type) {
	switch kind {
	case 0:
		vAssert(got.(datatype.Unsigned32) == want.(datatype.Unsigned32), "C02: Unsigned32 value read back")
	case 1:
		vAssert(got.(datatype.Unsigned64) == want.(datatype.Unsigned64), "C02: Unsigned64 value read back")
	case 2:
		vAssert(got.(datatype.Integer32) == want.(datatype.Integer32), "C02: Integer32 value read back")
	case 3:
		vAssert(got.(datatype.Integer64) == want.(datatype.Integer64), "C02: Integer64 value read back")
	case 4:
		vAssert(got.(datatype.Enumerated) == want.(datatype.Enumerated), "C02: Enumerated value read back")
	case 5:
		vAssert(math.Float32bits(float32(got.(datatype.Float32))) == math.Float32bits(float32(want.(datatype.Float32))), "C02: Float32 bit pattern read back")
	case 6:
		vAssert(math.Float64bits(float64(got.(datatype.Float64))) == math.Float64bits(float64(want.(datatype.Float64))), "C02: Float64 bit pattern read back")
	case 7:
		vAssert(time.Time(got.(datatype.Time)).Unix() == time.Time(want.(datatype.Time)).Unix(), "C02: Time read back to the same second (era rule)")
	case 8:
		vAssert(got.(datatype.OctetString) == want.(datatype.OctetString), "C02: OctetString read back")
	case 9:
		vAssert(got.(datatype.UTF8String) == want.(datatype.UTF8String), "C02: UTF8String read back")
	case 10:
		vAssert(got.(datatype.DiameterIdentity) == want.(datatype.DiameterIdentity), "C02: DiameterIdentity read back")
	}
}

// zzC01_wire: the converse direction. A well-formed body (DESIGN B.3): K AVP slots, declared lengths
// consistent with the slots, padding bytes zero, payload length legal for the dictionary's type;
// everything else symbolic. ReadMessage then Serialize reproduces the bytes exactly; AVPs unknown to
// the dictionary are carried as opaque data.
func zzC01_wire() {
	k := vLen("k", 1, vParam("WK", 2))
	sizes := make([]int, k)
	total := 0
	for i := range sizes {
		sizes[i] = 4 * vLen("p4", 2, vParam("WP", 24)/4)
		total += sizes[i]
	}
	body := vBytes("body", total)
	app := vU32("app")
	d := vAbstractDict()
	recs := zzFrameFixed(body, sizes)
	cmd := vU32("cmd") & 0xffffff
	flags := vU8("flags")
	zzKnownCommand(d, app, cmd)
	wire := zzMessageBytes(body, flags, cmd, app)
	hbh, e2e := vU32("hbh"), vU32("e2e")
	wire[12], wire[13], wire[14], wire[15] = byte(hbh>>24), byte(hbh>>16), byte(hbh>>8), byte(hbh)
	wire[16], wire[17], wire[18], wire[19] = byte(e2e>>24), byte(e2e>>16), byte(e2e>>8), byte(e2e)
	m, err := ReadMessage(zzNewReader(wire), d)
	// well-formedness per record (asked after decoding: the dictionary answers are already fixed)
	for _, r := range recs {
		da, _ := d.FindAVPWithVendor(app, r.code, r.vendor)
		ty := da.Data.Type
		n := r.l - r.hdr
		vAssume(ty != datatype.GroupedType) // nested bodies: zzC01_avp kind 20 and C04
		vAssume(zzLegalLen(ty, n))
		for j := r.off + r.l; j < r.off+((r.l+3)&^3); j++ {
			vAssume(body[j] == 0) // padding is zero in a well-formed message
		}
		if ty == datatype.AddressType {
			// canonical address images only: family 1 with 4 bytes, family 2 with 16 (not v4-mapped),
			// another family with data whose total length is not 4 or 16 (KF-C01-address-otherfamily-len)
			p := body[r.off+r.hdr : r.off+r.l]
			vAssume(n >= 3)
			fam := uint16(p[0])<<8 | uint16(p[1])
			vAssume(fam != 0 && fam != 65535)
			if fam == 1 {
				vAssume(n == 6)
			} else if fam == 2 {
				vAssume(n == 18 && !zzIsV4Mapped(p[2:]))
			} else {
				vAssume(n != 4 && n != 16)
			}
		}
	}
	vAssert(err == nil && m != nil, "C01: a well-formed wire message is read")
	if err != nil {
		return
	}
	out, serr := m.Serialize()
	vAssert(serr == nil, "C01: and serialises")
	vObserve("navps", uint64(len(m.AVP)))
	vObserveBytes("out", out)
	zzBytesEq(out, wire, "C01: a well-formed wire message that is read and then serialised reproduces its bytes exactly")
	vReach("C01_wire")
}

// zzC01_embedded: the round trip on the embedded dictionaries, for the scoping of group members: a
// credit-control answer (application 4) whose Failed-AVP -- a group the *base* application declares --
// holds members only application 4 declares (CC-Request-Number, CC-Request-Type) next to a base member;
// values symbolic. Read back, every member must carry its dictionary type and value, at its depth.
func zzC01_embedded() {
	m := NewMessage(CreditControl, 0, 4, vU32("hbh")|1, vU32("e2e")|1, dict.Default)
	num, typ := vU32("reqnum"), vU32("reqtype")
	inner := &GroupedAVP{AVP: []*AVP{
		NewAVP(264, 0x40, 0, datatype.DiameterIdentity("h.example")),
		NewAVP(415, 0x40, 0, datatype.Unsigned32(num)),
		NewAVP(416, 0x40, 0, datatype.Enumerated(typ)),
	}}
	if zzFlag("nestedOnceMore") {
		// the same members one level deeper: Failed-AVP holding a Subscription-Id-like application group
		inner = &GroupedAVP{AVP: []*AVP{NewAVP(279, 0x40, 0, inner)}}
	}
	m.NewAVP(279, 0x40, 0, inner)
	b, err := m.Serialize()
	vAssume(err == nil)
	back, rerr := ReadMessage(zzNewReader(b), dict.Default)
	vAssert(rerr == nil && back != nil, "C01: a message built from valid values reads back")
	if rerr != nil {
		return
	}
	var check func(got, want *AVP)
	check = func(got, want *AVP) {
		vAssert(got.Code == want.Code && got.Flags == want.Flags && got.VendorID == want.VendorID, "C01: code, flags and vendor id survive")
		wg, isGroup := want.Data.(*GroupedAVP)
		if isGroup {
			gg, ok := got.Data.(*GroupedAVP)
			vAssert(ok && len(gg.AVP) == len(wg.AVP), "C01: nesting survives")
			if ok && len(gg.AVP) == len(wg.AVP) {
				for i := range wg.AVP {
					check(gg.AVP[i], wg.AVP[i])
				}
			}
			return
		}
		vAssert(got.Data.Type() == want.Data.Type(), "C01: every AVP, at every depth, reads back with the data type the message's application gives it")
		zzBytesEq(got.Data.Serialize(), want.Data.Serialize(), "C01: typed value survives")
	}
	vAssert(len(back.AVP) == 1, "C01: AVP count survives")
	if len(back.AVP) == 1 {
		check(back.AVP[0], m.AVP[0])
	}
	b2, err2 := back.Serialize()
	vAssert(err2 == nil, "C01: read-back message serialises")
	zzBytesEq(b2, b, "C01: serialising again yields identical bytes")
	vReach("C01_embedded")
}
