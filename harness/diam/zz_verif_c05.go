package diam

import (
	"io"
)

// C05: message boundaries in a byte stream follow the declared message length.

// zzFragReader delivers a byte string in fragments: each Read returns either everything that
// fits, one byte, or half of what fits (choice case-split, at most `budget` short reads).
type zzFragReader struct {
	b      []byte
	off    int
	budget int
	reads  int
	// readsAfter counts Read calls made after `mark` bytes were consumed
	mark       int
	readsAfter int
	// eofWithData: the Read that hands out the last byte of the stream also reports io.EOF (allowed
	// by the io.Reader contract)
	eofWithData bool
}

func (r *zzFragReader) Read(p []byte) (int, error) {
	r.reads++
	if r.off >= r.mark {
		r.readsAfter++
	}
	if r.off >= len(r.b) {
		return 0, io.EOF
	}
	n := len(r.b) - r.off
	if len(p) < n {
		n = len(p)
	}
	if r.budget > 0 && n > 1 {
		switch vChoice("frag", 3) {
		case 1:
			n = 1
			r.budget--
		case 2:
			n = n / 2
			r.budget--
		}
	}
	copy(p, r.b[r.off:r.off+n])
	r.off += n
	if r.eofWithData && r.off == len(r.b) {
		return n, io.EOF
	}
	return n, nil
}

// zzOneAVPBody builds a body of length bl (0 or >= 8) holding a single AVP that fills it.
func zzOneAVPBody(tag string, bl int) []byte {
	if bl == 0 {
		return nil
	}
	b := vBytes(tag, bl)
	l := int(b[5])<<16 | int(b[6])<<8 | int(b[7])
	vAssume(b[4]&0x80 == 0 && l == bl)
	return b
}

// zzC05_stream: a stream of M messages with bodies below / at / above the pooled buffer (set to 24),
// read back under every bounded fragmentation; optional truncation of the last message.
func zzC05_stream() {
	saved := MessageBufferLength
	MessageBufferLength = 24
	defer func() { MessageBufferLength = saved }()
	m := vLen("msgs", 1, vParam("M", 2))
	d := vAbstractDict()
	app := vU32("app")
	zzKnownCommand(d, app, 257)
	var stream []byte
	var ends []int
	var hbh []uint32
	for i := 0; i < m; i++ {
		// body sizes: empty, minimal, just below / at / just above the pooled buffer
		// and declared lengths that are not a multiple of four (a peer that leaves the last AVP's padding out)
		bl := [8]int{0, 8, MessageBufferLength - 4, MessageBufferLength, MessageBufferLength + 4, 9, 11, MessageBufferLength - 3}[vChoice("bodysize", vParam("SIZES", 8))]
		body := zzOneAVPBody("body", bl)
		mb := zzMessageBytes(body, 0x80, 257, app)
		id := vU32("hbh")
		mb[12], mb[13], mb[14], mb[15] = byte(id>>24), byte(id>>16), byte(id>>8), byte(id)
		hbh = append(hbh, id)
		stream = append(stream, mb...)
		ends = append(ends, len(stream))
	}
	// truncation point: 0 = none, otherwise cut t bytes off the end of the stream
	cut := 0
	if vBool("truncate") {
		last := ends[m-1]
		prev := 0
		if m > 1 {
			prev = ends[m-2]
		}
		cut = vLen("cut", 1, last-prev-1)
		stream = stream[:last-cut]
	}
	budget := vParam("SHORT", 2)
	if cut > 0 && budget > vParam("SHORTCUT", 1) {
		budget = vParam("SHORTCUT", 1)
	}
	r := &zzFragReader{b: stream, budget: budget, mark: 1 << 30, eofWithData: vParam("EOFDATA", 1) == 1 && zzFlag("eofWithLastBytes")}
	whole := m
	if cut > 0 {
		whole = m - 1
	}
	for i := 0; i < whole; i++ {
		msg, err := ReadMessage(r, d)
		vAssert(err == nil && msg != nil, "complete message is delivered whatever the fragmentation")
		vObserve("consumed", uint64(r.off))
		vObserve("reads", uint64(r.reads))
		vAssert(r.off == ends[i], "exactly the declared length is consumed")
		vAssert(msg.Header.HopByHopID == hbh[i], "messages come out in stream order")
		out, e2 := msg.Serialize()
		start := 0
		if i > 0 {
			start = ends[i-1]
		}
		own := ends[i] - start
		vAssert(e2 == nil && len(out) == 20+(own-20+3)&^3, "message carries exactly its own bytes")
		for j := range out {
			if j >= 1 && j <= 3 {
				continue // the re-serialised length field counts the padding the peer left out
			}
			if j < own {
				vAssert(out[j] == stream[start+j], "bytes of one message are never attributed to another")
			} else {
				vAssert(out[j] == 0, "bytes of the next message never fill this one's padding")
			}
		}
	}
	msg, err := ReadMessage(r, d)
	vAssert(msg == nil && err != nil, "nothing is delivered past the end")
	if cut == 0 {
		vAssert(err == io.EOF, "a stream ending between messages reports end-of-file")
	} else {
		vAssert(err != io.EOF, "a stream ending inside a message reports an error, not EOF")
	}
	vReach("C05_stream")
}

// zzC05_shortlen: a declared length of 0..19 is rejected without reading further.
func zzC05_shortlen() {
	n := 20 + vLen("extra", 0, vParam("X", 8))
	b := vBytes("b", n)
	d := vAbstractDict()
	ml := int(b[1])<<16 | int(b[2])<<8 | int(b[3])
	vAssume(ml < 20)
	vKnown("KF-C05-msglen-underflow", true)
	r := &zzFragReader{b: b, budget: vParam("SHORT", 1), mark: 20}
	msg, err := ReadMessage(r, d)
	vAssert(msg == nil && err != nil, "declared length below the header size is rejected")
	vAssert(r.off == 20 && r.readsAfter == 0, "rejected without reading past the 20 header bytes")
	vReach("C05_shortlen")
}
