package diam

// C15: faults on one connection stay on that connection.

// zzC15_faults: Server.Serve on an in-memory listener; a faulty connection A (handler panic at message
// i / malformed message / abrupt EOF between messages or inside a body), a healthy connection B, 0..2 temporary accept errors and a
// connection C accepted afterwards; fault placement and malformed bytes case-split / symbolic.
func zzC15_faults() {
	d := vAbstractDict()
	zzKnownCommand(d, 0, 257)
	l := &zzListener{ch: make(chan zzAccept, 8)}
	served := map[string][]uint32{}
	// the server's handler is a ServeMux of its own, or nil: the documented default, which serves and
	// reports through DefaultServeMux
	mux := NewServeMux()
	useDefault := zzFlag("nilHandlerDefaultMux")
	if useDefault {
		mux = DefaultServeMux
	}
	// (the number of temporary accept errors is chosen up front so that the CloseNotify variant below
	// can be limited to the runs without them)
	ntemp := vLen("temperrs", 0, vParam("TEMP", 2))
	// the handler of the faulty connection may have asked for the close notification (sm.Client's
	// watchdog does): the connection's end then also runs the notification path
	wantCloseNotify := ntemp == 0 && zzFlag("handlerRequestsCloseNotify")
	mux.HandleFunc("ALL", func(c Conn, m *Message) {
		name := c.RemoteAddr().String()
		if wantCloseNotify && name == "A" {
			wantCloseNotify = false
			_ = c.(CloseNotifier).CloseNotify()
		}
		if m.Header.HopByHopID == 0xbad {
			panic("zz: handler fault")
		}
		served[name] = append(served[name], m.Header.HopByHopID)
		m.Answer(2001).WriteTo(c)
	})
	srv := &Server{Handler: mux, Dict: d}
	if useDefault {
		srv.Handler = nil
	}
	serveReturned := false
	go func() {
		srv.Serve(l)
		serveReturned = true
	}()
	a, b := zzNewTransport("A"), zzNewTransport("B")
	l.ch <- zzAccept{c: a}
	l.ch <- zzAccept{c: b}
	vQuiesce()
	// healthy traffic before the fault
	pos := vChoice("faultpos", 2)
	next := uint32(1)
	for i := 0; i < pos; i++ {
		a.in <- zzPlainMessage(257, 0x80, 0, next)
		next++
	}
	b.in <- zzPlainMessage(257, 0x80, 0, 500)
	vQuiesce()
	fault := vChoice("fault", 4)
	switch fault {
	case 3: // abrupt disconnect in the middle of a message body
		part := zzMessageBytes(make([]byte, 8), 0x80, 257, 0)
		a.in <- part[:24]
		close(a.in)
	case 0: // handler panic
		a.in <- zzPlainMessage(257, 0x80, 0, 0xbad)
	case 1: // malformed message: 20 symbolic bytes whose declared length is below the header size
		bad := vBytes("bad", 20)
		vAssume(int(bad[1])<<16|int(bad[2])<<8|int(bad[3]) < 20)
		a.in <- bad
	case 2: // abrupt disconnect
		close(a.in)
	}
	vQuiesce()
	// temporary accept errors
	isTimeout := ntemp > 0 && zzFlag("acceptErrIsTimeout")
	for i := 0; i < ntemp; i++ {
		l.ch <- zzAccept{err: zzTempErr{timeout: isTimeout}}
		vQuiesce()
		for vPendingTimers() > 0 {
			vAdvance()
			vQuiesce()
		}
	}
	// a handler is registered at run time after the fault (what sm.Client does on every dial)
	registered := false
	go func() {
		mux.HandleFunc("ZZR", func(c Conn, m *Message) {})
		registered = true
	}()
	vQuiesce()
	vAssert(registered, "handlers can still be registered after a fault on some connection")
	c, dd := zzNewTransport("C"), zzNewTransport("D")
	l.ch <- zzAccept{c: c}
	l.ch <- zzAccept{c: dd}
	vQuiesce()
	// the other connections continue to be served; their reads interleave: B's next message arrives in
	// two fragments around a whole message on C (buffers of different connections must not be shared)
	bm := zzPlainMessage(257, 0x80, 0, 501)
	b.in <- bm[:16]
	vQuiesce()
	c.in <- zzPlainMessage(257, 0x80, 0, 900)
	vQuiesce()
	b.in <- bm[16:]
	vQuiesce()
	// the same between the two connections accepted after the fault
	dm := zzPlainMessage(257, 0x80, 0, 700)
	dd.in <- dm[:16]
	vQuiesce()
	c.in <- zzPlainMessage(257, 0x80, 0, 901)
	vQuiesce()
	dd.in <- dm[16:]
	vQuiesce()
	vAssert(a.isClosed, "the faulty connection is closed")
	vAssert(len(served["A"]) == pos, "the faulty connection served exactly the messages before the fault")
	if fault == 1 {
		var rep *ErrorReport
		select {
		case rep = <-mux.ErrorReports():
		default:
		}
		vAssert(rep != nil && rep.Conn != nil && rep.Conn.RemoteAddr().String() == "A", "an error report is offered for undecodable input")
	}
	vAssert(!b.isClosed && len(served["B"]) == 2 && served["B"][0] == 500 && served["B"][1] == 501, "the healthy connection keeps being served")
	vAssert(len(b.written) == 2, "the healthy connection's requests are answered")
	vAssert(!serveReturned && !l.closed, "the listener keeps accepting: transient accept errors and connection faults do not stop the server")
	vAssert(!c.isClosed && len(served["C"]) == 2 && served["C"][0] == 900 && served["C"][1] == 901, "a connection accepted after the faults is served")
	vAssert(!dd.isClosed && len(served["D"]) == 1 && served["D"][0] == 700, "and so is another one, with its own bytes")
	vReach("C15_faults")
}
