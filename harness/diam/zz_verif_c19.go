package diam

import (
	"io"
	"net"
	"time"

	"github.com/fiorix/go-diameter/v4/diam/datatype"
	"github.com/ishidawataru/sctp"
)

// C19: SCTP multistream: every message is assembled from one stream, in order.
//
// The methods below are declared on *diam.SCTPConn and therefore shadow the methods promoted from
// the embedded *sctp.SCTPConn socket: the library's own multistream code (ReadAny, ReadStream,
// ReadAtLeast, verifyStreamBuff, bufferStreamData, the stream heap, Write / WriteStream) runs
// unchanged on top of an in-memory association.

type zzChunk struct {
	stream uint16
	data   []byte
}

type zzSCTPBackend struct {
	chunks []zzChunk
	pos    int
	off    int
	writes []zzChunk
	reads  int
	closed bool
}

var zzSCTP *zzSCTPBackend

func (msc *SCTPConn) SCTPRead(b []byte) (int, *sctp.SndRcvInfo, error) {
	be := zzSCTP
	be.reads++
	if be.pos >= len(be.chunks) {
		return 0, nil, io.EOF
	}
	ch := be.chunks[be.pos]
	n := copy(b, ch.data[be.off:])
	be.off += n
	if be.off >= len(ch.data) {
		be.pos++
		be.off = 0
	}
	return n, &sctp.SndRcvInfo{Stream: ch.stream, PPID: DiameterPPID}, nil
}

func (msc *SCTPConn) SCTPWrite(b []byte, info *sctp.SndRcvInfo) (int, error) {
	be := zzSCTP
	var s uint16
	if info != nil {
		s = info.Stream
	}
	be.writes = append(be.writes, zzChunk{stream: s, data: append([]byte(nil), b...)})
	return len(b), nil
}

func (msc *SCTPConn) Close() error                       { zzSCTP.closed = true; return nil }
func (msc *SCTPConn) LocalAddr() net.Addr                { return zzNamedAddr{"192.0.2.10:3868"} }
func (msc *SCTPConn) RemoteAddr() net.Addr               { return zzNamedAddr{"198.51.100.9:3868"} }
func (msc *SCTPConn) SetDeadline(t time.Time) error      { return nil }
func (msc *SCTPConn) SetReadDeadline(t time.Time) error  { return nil }
func (msc *SCTPConn) SetWriteDeadline(t time.Time) error { return nil }

// zzC19_demux: S streams, <= 2 messages per stream, the streams' byte sequences cut into <= C chunks
// (cut points case-split: inside a header, at a message boundary, spanning messages) and interleaved
// in a case-split order; consumed by the library's own loop.
func zzC19_demux() {
	d := vAbstractDict()
	zzKnownCommand(d, 0, 257)
	da, derr := d.FindAVPWithVendor(0, uint32(1), 0)
	vAssume(derr == nil && da.Data.Type == datatype.OctetStringType)
	ns := vLen("streams", 1, vParam("S", 2))
	seqs := make([][]byte, ns)
	ids := make([][]uint32, ns)
	for s := 0; s < ns; s++ {
		nm := vLen("msgs", 1, 2)
		for k := 0; k < nm; k++ {
			id := vU32("e2e")
			// messages of odd streams are bare headers (20 bytes), those of even streams carry one opaque
			// 24-byte AVP (44 bytes): a whole short message then fits into one read of a long one's body
			var body []byte
			if s%2 == 1 {
				body = make([]byte, 24)
				body[3] = 1
				body[7] = 24
				for j := 8; j < 24; j++ {
					body[j] = byte(16*(s+1) + k)
				}
			}
			mb := zzMessageBytes(body, 0x80, 257, 0)
			hb := uint32(1000*(s+1) + k)
			mb[12], mb[13], mb[14], mb[15] = byte(hb>>24), byte(hb>>16), byte(hb>>8), byte(hb)
			mb[16], mb[17], mb[18], mb[19] = byte(id>>24), byte(id>>16), byte(id>>8), byte(id)
			seqs[s] = append(seqs[s], mb...)
			ids[s] = append(ids[s], id)
		}
	}
	be := &zzSCTPBackend{}
	zzSCTP = be
	// cut and interleave
	offs := make([]int, ns)
	maxChunks := vParam("C", 5)
	for len(be.chunks) < maxChunks {
		var live []int
		for s := 0; s < ns; s++ {
			if offs[s] < len(seqs[s]) {
				live = append(live, s)
			}
		}
		if len(live) == 0 {
			break
		}
		s := live[vChoice("chunkstream", len(live))]
		rest := len(seqs[s]) - offs[s]
		n := rest
		if len(be.chunks) < maxChunks-len(live) {
			// cut sizes: 3 (inside a header), 20 (a whole message), 25 (spanning two), everything
			switch vChoice("chunklen", 4) {
			case 0:
				n = 3
			case 1:
				n = 20
			case 2:
				n = 25
			}
			if n > rest {
				n = rest
			}
		}
		be.chunks = append(be.chunks, zzChunk{stream: uint16(s + 1), data: seqs[s][offs[s] : offs[s]+n]})
		offs[s] += n
	}
	for s := 0; s < ns; s++ {
		vAssume(offs[s] == len(seqs[s])) // the chunk budget covered every byte
	}
	msc := &SCTPConn{s: &streams{}, currStream: InvalidStreamID, writerStream: InvalidStreamID}
	got := make([][]uint32, ns)
	total := 0
	for s := 0; s < ns; s++ {
		total += len(ids[s])
	}
	// replies are written straight after the read, or (deferReplies) only after the next message has
	// been read, when the connection's current read stream is another one
	deferReplies := zzFlag("deferReplies")
	var pending *Message
	reply := func(m *Message) {
		nw := len(be.writes)
		_, werr := m.Answer(2001).WriteTo(msc)
		vAssert(werr == nil && len(be.writes) == nw+1 && uint(be.writes[nw].stream) == m.MessageStream(), "replies built from a message are written to that same stream")
	}
	for i := 0; i < total+1; i++ {
		msc.ResetCurrentStream()
		m, err := ReadMessage(msc, d)
		if pending != nil {
			reply(pending)
			pending = nil
		}
		if err != nil {
			vAssert(i == total, "no message is lost: the loop ends only after every message was delivered")
			break
		}
		vAssert(i < total, "no message is duplicated or invented")
		st := int(m.MessageStream())
		vAssert(st >= 1 && st <= ns, "each message reports a stream that exists")
		if st < 1 || st > ns {
			return
		}
		s := st - 1
		k := len(got[s])
		vAssert(k < len(ids[s]), "no more messages on a stream than were sent on it")
		if k >= len(ids[s]) {
			return
		}
		vObserve("stream", uint64(st))
		vObserve("hbh", uint64(m.Header.HopByHopID))
		vAssert(m.Header.HopByHopID == uint32(1000*(s+1)+k) && m.Header.EndToEndID == ids[s][k], "each message is assembled from the bytes of one stream, in that stream's order")
		if s%2 == 1 {
			vAssert(len(m.AVP) == 1, "the long message's AVP is there")
			if len(m.AVP) == 1 {
				for _, x := range m.AVP[0].Data.Serialize() {
					vAssert(x == byte(16*(s+1)+k), "and its payload comes from its own stream")
				}
			}
		}
		got[s] = append(got[s], m.Header.EndToEndID)
		// the reply goes to the stream the request arrived on
		if deferReplies {
			pending = m
		} else {
			reply(m)
		}
	}
	for s := 0; s < ns; s++ {
		vAssert(len(got[s]) == len(ids[s]), "every stream's messages are all delivered")
	}
	vReach("C19_demux")
}

// zzC19_heap: more than three streams with buffered data (the stream heap then has inner nodes with
// children). Stream 1's header arrives first; while the library waits for its body, whole messages of
// N-1 other streams (body 32 or 52 bytes: case split) arrive in a case-split order and are buffered;
// then stream 1's 88-byte body. Every message must be delivered once, from its own stream.
func zzC19_heap() {
	d := vAbstractDict()
	zzKnownCommand(d, 0, 257)
	da, derr := d.FindAVPWithVendor(0, uint32(1), 0)
	vAssume(derr == nil && da.Data.Type == datatype.OctetStringType)
	n := vLen("streams", 4, vParam("HS", 5))
	mk := func(stream, bodyLen int) []byte {
		body := make([]byte, bodyLen)
		body[3] = 1
		body[5], body[6], body[7] = byte(bodyLen>>16), byte(bodyLen>>8), byte(bodyLen)
		for j := 8; j < bodyLen; j++ {
			body[j] = byte(16 * stream)
		}
		mb := zzMessageBytes(body, 0x80, 257, 0)
		hb := uint32(1000 * stream)
		mb[12], mb[13], mb[14], mb[15] = byte(hb>>24), byte(hb>>16), byte(hb>>8), byte(hb)
		return mb
	}
	be := &zzSCTPBackend{}
	zzSCTP = be
	first := mk(1, 88)
	be.chunks = append(be.chunks, zzChunk{stream: 1, data: first[:20]})
	var rest []int
	for s := 2; s <= n; s++ {
		rest = append(rest, s)
	}
	for len(rest) > 0 {
		i := vChoice("next", len(rest))
		s := rest[i]
		rest = append(rest[:i:i], rest[i+1:]...)
		be.chunks = append(be.chunks, zzChunk{stream: uint16(s), data: mk(s, [2]int{32, 52}[vChoice("bodylen", 2)])})
	}
	be.chunks = append(be.chunks, zzChunk{stream: 1, data: first[20:]})
	msc := &SCTPConn{s: &streams{}, currStream: InvalidStreamID, writerStream: InvalidStreamID}
	seen := make([]int, n+1)
	for i := 0; i < n+1; i++ {
		msc.ResetCurrentStream()
		m, err := ReadMessage(msc, d)
		if err != nil {
			vAssert(i == n, "no message is lost: the loop ends only after every stream's message was delivered")
			break
		}
		vAssert(i < n, "no message is duplicated or invented")
		st := int(m.MessageStream())
		vAssert(st >= 1 && st <= n && m.Header.HopByHopID == uint32(1000*st), "each message is assembled from its own stream and reports it")
		if st < 1 || st > n {
			return
		}
		seen[st]++
		vAssert(len(m.AVP) == 1, "the message's AVP is there")
		if len(m.AVP) == 1 {
			for _, x := range m.AVP[0].Data.Serialize() {
				vAssert(x == byte(16*st), "and its payload comes from its own stream")
			}
		}
	}
	for st := 1; st <= n; st++ {
		vAssert(seen[st] == 1, "every stream's message is delivered exactly once")
	}
	vReach("C19_heap")
}

// zzC19_response: the same through the server side's connection object (conn / response) on a
// multi-stream transport: two requests on different streams read by conn.readMessage, answered through
// the connection's writer straight away or only after the other request has been read (case split),
// with and without a server WriteTimeout (case split): every answer goes to its request's stream.
func zzC19_response() {
	d := vAbstractDict()
	zzKnownCommand(d, 0, 257)
	be := &zzSCTPBackend{}
	zzSCTP = be
	s1, s2 := uint16(1+vChoice("stream1", 3)), uint16(1+vChoice("stream2", 3))
	be.chunks = append(be.chunks, zzChunk{stream: s1, data: zzPlainMessage(257, 0x80, 0, 101)}, zzChunk{stream: s2, data: zzPlainMessage(257, 0x80, 0, 102)})
	msc := &SCTPConn{s: &streams{}, currStream: InvalidStreamID, writerStream: InvalidStreamID}
	srv := &Server{Dict: d}
	if zzFlag("writeTimeout") {
		srv.WriteTimeout = time.Second
	}
	c, err := srv.newConn(msc)
	vAssume(err == nil)
	reply := func(m *Message) {
		nw := len(be.writes)
		// (with a Result-Code, or without one: Answer(0), as used with Experimental-Result)
		_, werr := m.Answer(uint32(2001 * vChoice("resultcode", 2))).WriteTo(c.writer)
		vAssert(werr == nil && len(be.writes) == nw+1 && uint(be.writes[nw].stream) == m.MessageStream(), "an answer written through the connection goes to the stream its request arrived on")
	}
	m1, e1 := c.readMessage()
	vAssert(e1 == nil && m1 != nil && m1.MessageStream() == uint(s1), "first request read from its stream")
	if e1 != nil {
		return
	}
	deferred := zzFlag("deferFirstReply")
	if !deferred {
		reply(m1)
	}
	m2, e2 := c.readMessage()
	vAssert(e2 == nil && m2 != nil && m2.MessageStream() == uint(s2), "second request read from its stream")
	if e2 != nil {
		return
	}
	if deferred {
		reply(m1)
	}
	reply(m2)
	vReach("C19_response")
}
