package diam

import (
	"time"

	"github.com/fiorix/go-diameter/v4/diam/datatype"
)

// C07 (continued): the lock-discipline obligation. This harness is white-box: it names the
// connection's write lock (response.mu) and its buffered writer. If a refactoring moves or renames
// them, this file no longer compiles and is left out; checks.json marks the harness "whitebox", so
// that is reported as a note (the ">2 writers follow from the lock discipline" argument is then
// not available) instead of making the property inconclusive.

// zzC07_lockheld: every path of response.Write: the transport is only written while the connection's
// write lock is held, the lock is free again afterwards, and one critical section carries exactly one
// whole message (sizes around the serialisation pool and the real size of the buffered writer).
func zzC07_lockheld() {
	d := vAbstractDict()
	rw := &zzLockedConn{}
	srv := &Server{Dict: d}
	if zzFlag("writetimeout") {
		srv.WriteTimeout = time.Second
	}
	c, err := srv.newConn(rw)
	vAssume(err == nil)
	rw.held = func() bool { return vHeld(&c.writer.mu) }
	pool, wbuf := MessageBufferLength, c.buf.Writer.Size()
	size := [9]int{8, 1100, wbuf + 104, pool - 32, pool - 28, pool - 24, wbuf - 32, wbuf - 28, wbuf - 24}[vChoice("size", vParam("SIZES", 9))]
	var all []byte
	for i := 0; i < vParam("MSGS", 2); i++ {
		m := NewMessage(257, 0x80, 0, uint32(i+1), 1, d)
		m.NewAVP(uint32(1), 0, 0, datatype.OctetString(vBytes("payload", size)))
		want, serr := m.Serialize()
		vAssume(serr == nil)
		before := len(rw.got)
		n, werr := m.WriteTo(c.writer)
		vAssert(werr == nil && int(n) == len(want), "write succeeds")
		vAssert(!vHeld(&c.writer.mu), "write lock released after the write")
		vAssert(len(rw.got)-before == len(want), "one critical section delivers exactly one whole message to the transport")
		all = append(all, want...)
	}
	vAssert(rw.unlocked == 0, "the transport is written only while the connection's write lock is held")
	zzBytesEq(rw.got, all, "messages reach the transport whole, in order, un-interleaved")
	vReach("C07_lockheld")
}
