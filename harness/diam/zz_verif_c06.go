package diam

import (
	"github.com/fiorix/go-diameter/v4/diam/datatype"
)

// C06: a decoded message never changes after it has been returned.

// zzDataBytes returns the bytes a typed value currently holds (its serialisation).
func zzDataBytes(a *AVP, out []byte) []byte {
	if g, ok := a.Data.(*GroupedAVP); ok {
		for _, c := range g.AVP {
			out = zzDataBytes(c, out)
		}
		return out
	}
	return append(out, a.Data.Serialize()...)
}

// zzC06_retain: read m1 (one AVP, or a group holding one AVP, of every representation that could be a
// view into the input), snapshot it, read j further messages of arbitrary content through the same
// pooled buffers, and compare m1 with the snapshot cell by cell.
func zzC06_retain() {
	d := vAbstractDict()
	app := vU32("app")
	zzKnownCommand(d, app, 257)
	// payload bytes: 4 (IPv4-sized), 16 (IPv6-sized), 20 (other-family Address with 18 data bytes),
	// 6 (Address family 1 + IPv4), 18 (Address family 2 + IPv6), 8, 12
	pl := [7]int{4, 16, 20, 6, 18, 8, 12}[vChoice("payload", vParam("PL", 5))]
	nested := vBool("nested")
	body1 := vBytes("m1", 8+pl)
	vAssume(body1[4]&0x80 == 0 && int(body1[5])<<16|int(body1[6])<<8|int(body1[7]) == 8+pl)
	if nested {
		outer := make([]byte, 8, 16+pl)
		oc := vU32("outercode")
		outer[0], outer[1], outer[2], outer[3] = byte(oc>>24), byte(oc>>16), byte(oc>>8), byte(oc)
		ol := 16 + pl
		outer[5], outer[6], outer[7] = byte(ol>>16), byte(ol>>8), byte(ol)
		da, _ := d.FindAVPWithVendor(app, oc, 0)
		vAssume(da.Data.Type == datatype.GroupedType)
		body1 = append(outer, body1...)
	}
	later := vLen("later", 1, vParam("J", 1))
	stream := zzMessageBytes(body1, 0x80, 257, app)
	for i := 0; i < later; i++ {
		// a later message of the same size and arbitrary content (it lands in the same pooled buffer)
		// (one opaque AVP filling the body: every byte of the buffer is still overwritten with an
		// arbitrary value, but the later message's own decoding adds no case splits)
		b := vBytes("m2", len(body1))
		vAssume(b[4]&0x80 == 0 && int(b[5])<<16|int(b[6])<<8|int(b[7]) == len(body1))
		db, _ := d.FindAVPWithVendor(app, zzBE32(b[0:4]), 0)
		vAssume(db.Data.Type == datatype.UnknownType)
		stream = append(stream, zzMessageBytes(b, 0x80, 257, app)...)
	}
	if vBool("pooldrop") {
		vPoolMayDrop(true)
	}
	r := zzNewReader(stream)
	m1, err := ReadMessage(r, d)
	vAssume(err == nil)
	ty := m1.AVP[0].Data.Type()
	if nested {
		g := m1.AVP[0].Data.(*GroupedAVP)
		vAssume(len(g.AVP) == 1)
		ty = g.AVP[0].Data.Type()
	}
	vKnown("KF-C06-alias-pooled-buffer", ty == datatype.AddressType || ty == datatype.UnknownType || ty == datatype.IPv4Type || ty == datatype.IPv6Type)
	// snapshot: private copies
	snapWire, e1 := m1.Serialize()
	vAssume(e1 == nil)
	snapWire = append([]byte(nil), snapWire...)
	snapData := append([]byte(nil), zzDataBytes(m1.AVP[0], nil)...)
	snapHdr := *m1.Header
	snapCode, snapFlags, snapVendor := m1.AVP[0].Code, m1.AVP[0].Flags, m1.AVP[0].VendorID
	// whatever happens later ...
	for i := 0; i < later; i++ {
		_, _ = ReadMessage(r, d)
	}
	// (and a write of an unrelated message through the library's pooled serialisation buffers)
	other := NewMessage(257, 0x80, app, 5, 6, d)
	other.NewAVP(vU32("othercode"), 0, 0, datatype.OctetString(vBytes("otherpayload", 8+pl)))
	var sink zzRecWriter
	_, _ = other.WriteTo(&sink)
	// ... the retained message is unchanged
	vAssert(*m1.Header == snapHdr, "retained header unchanged")
	vAssert(m1.AVP[0].Code == snapCode && m1.AVP[0].Flags == snapFlags && m1.AVP[0].VendorID == snapVendor, "retained AVP header fields unchanged")
	now := zzDataBytes(m1.AVP[0], nil)
	vAssert(len(now) == len(snapData), "retained value keeps its length")
	for i := range snapData {
		vAssert(now[i] == snapData[i], "retained typed value unchanged by later reads")
	}
	w2, e2 := m1.Serialize()
	vObserveBytes("retained", w2)
	vAssert(e2 == nil && len(w2) == len(snapWire), "retained message serialises as before")
	for i := range snapWire {
		vAssert(w2[i] == snapWire[i], "retained message serialises to the same bytes")
	}
	vReach("C06_retain")
}
