package sm

import (
	"github.com/fiorix/go-diameter/v4/diam"
	"github.com/fiorix/go-diameter/v4/diam/avp"
	"github.com/fiorix/go-diameter/v4/diam/datatype"
	"github.com/fiorix/go-diameter/v4/diam/dict"
)

// C12: client handshake: bounded retransmission, definite outcome, stable afterwards.

// zzCountCERs parses everything the client wrote and returns the CERs (checking each one's content).
func zzCheckCER(b []byte, wantAddrs [][4]byte) *diam.Message {
	m, err := diam.ReadMessage(&zzReader{b: b}, dict.Default)
	vAssert(err == nil && m != nil, "what the client sends is a well-formed message")
	if err != nil {
		return nil
	}
	vAssert(m.Header.CommandCode == diam.CapabilitiesExchange && m.Header.CommandFlags&diam.RequestFlag != 0, "the client opens with a CER")
	oh, e1 := m.FindAVP(avp.OriginHost, 0)
	or, e2 := m.FindAVP(avp.OriginRealm, 0)
	vAssert(e1 == nil && e2 == nil && oh.Data.(datatype.DiameterIdentity) == "srv.example" && or.Data.(datatype.DiameterIdentity) == "example", "CER carries the configured identity")
	addrs, e3 := m.FindAVPs(avp.HostIPAddress, 0)
	vAssert(e3 == nil && len(addrs) == len(wantAddrs), "CER carries the configured host addresses, or the connection's own local address when none is configured")
	if e3 == nil && len(addrs) == len(wantAddrs) {
		for i, w := range wantAddrs {
			ab := addrs[i].Data.Serialize()
			vAssert(len(ab) == 6 && ab[1] == 1 && ab[2] == w[0] && ab[3] == w[1] && ab[4] == w[2] && ab[5] == w[3], "CER host address: the configured ones, or this connection's local endpoint")
		}
	}
	auth, e4 := m.FindAVPs(avp.AuthApplicationID, 0)
	acct, e5 := m.FindAVPs(avp.AcctApplicationID, 0)
	vs, e6 := m.FindAVPs(avp.VendorSpecificApplicationID, 0)
	// FindAVPs descends into groups: the vendor-specific group's member counts as an Auth-Application-Id too
	vAssert(e4 == nil && len(auth) == 2 && e5 == nil && len(acct) == 1 && e6 == nil && len(vs) == 1, "CER advertises every application the client was told to advertise")
	return m
}

// zzPeerCEA builds the peer's answer to a CER from symbolic parts.
func zzPeerCEA(cer *diam.Message, tag string, kinds int) (b []byte, acceptable bool) {
	rc := vU32(tag + ".rc")
	a := cer.Answer(rc)
	hasOH, hasOR := true, true
	if zzFlag(tag + ".malformed") {
		hasOH = false
	}
	if hasOH {
		a.NewAVP(avp.OriginHost, avp.Mbit, 0, datatype.DiameterIdentity("peer.example"))
	}
	if hasOR {
		a.NewAVP(avp.OriginRealm, avp.Mbit, 0, datatype.DiameterIdentity("peers"))
	}
	common := false
	// application information of the CEA: none, a plain Auth- / Acct-Application-Id, or a
	// Vendor-Specific-Application-Id group (Vendor-Id first as in RFC 6733, or the id alone)
	switch vChoice(tag+".appkind", kinds) {
	case 1:
		id := vU32(tag + ".app")
		a.NewAVP(avp.AuthApplicationID, avp.Mbit, 0, datatype.Unsigned32(id))
		common = id == 0xffffffff || zzSup(id, "auth")
	case 2:
		id := vPick32(tag+".app", 4, 3, 999999, 0xffffffff) // (the 32-bit id space is covered by case 1 and by C11)
		a.NewAVP(avp.VendorSpecificApplicationID, avp.Mbit, 0, &diam.GroupedAVP{AVP: []*diam.AVP{
			diam.NewAVP(avp.VendorID, avp.Mbit, 0, datatype.Unsigned32(10415)),
			diam.NewAVP(avp.AuthApplicationID, avp.Mbit, 0, datatype.Unsigned32(id)),
		}})
		common = id == 0xffffffff || zzSup(id, "auth")
	case 3:
		id := vPick32(tag+".app", 4, 3, 999999, 0xffffffff) // (the 32-bit id space is covered by case 1 and by C11)
		a.NewAVP(avp.AcctApplicationID, avp.Mbit, 0, datatype.Unsigned32(id))
		common = id == 0xffffffff || zzSup(id, "acct")
	case 4:
		id := vPick32(tag+".app", 4, 3, 999999, 0xffffffff) // (the 32-bit id space is covered by case 1 and by C11)
		a.NewAVP(avp.VendorSpecificApplicationID, avp.Mbit, 0, &diam.GroupedAVP{AVP: []*diam.AVP{
			diam.NewAVP(avp.AcctApplicationID, avp.Mbit, 0, datatype.Unsigned32(id)),
		}})
		common = id == 0xffffffff || zzSup(id, "acct")
	}
	out, err := a.Serialize()
	vAssume(err == nil)
	return out, rc == diam.Success && hasOH && hasOR && common
}

// zzC12_handshake: Client.NewConn over an in-memory transport with a scripted peer and a logical
// clock. MaxRetransmits 0..R; at each quiescent point the peer (case-split) answers with a CEA whose
// Result-Code, application id (32-bit) and completeness are symbolic, stays silent until the next
// timer, or disconnects; after a success up to X further CEAs (duplicate success / late failure) and
// one application answer.
func zzC12_handshake() {
	// host addresses configured in the settings, or none (the CER then carries the local endpoint's)
	configured := vParam("NOADDR", 0) == 0 || !zzFlag("noConfiguredAddresses")
	st := New(zzSettings(configured))
	wantAddrs := [][4]byte{{192, 0, 2, 1}, {192, 0, 2, 2}}
	if !configured {
		wantAddrs = [][4]byte{{192, 0, 2, 10}}
	}
	var answers []uint32
	st.HandleFunc("CCA", func(c diam.Conn, m *diam.Message) { answers = append(answers, m.Header.HopByHopID) })
	retrans := vLen("retransmits", 0, vParam("R", 1))
	cli := zzClient(st, retrans, false)
	t := zzNewTransport("198.51.100.7:3868")
	if zzFlag("slowFirstWrite") {
		// the transport takes one and a half intervals to accept the first CER
		t.slowWrites, t.writeDelay = 1, zzTickD+zzTickD/2
	}
	var conn diam.Conn
	var herr error
	done := false
	go func() {
		conn, herr = cli.NewConn(t, "zz")
		done = true
	}()
	vQuiesce()
	for len(t.written) == 0 && !done && vPendingTimers() > 0 {
		vAdvance()
		vQuiesce()
	}
	gotAcceptable := false
	disconnected := false
	seen := 0
	for step := 0; step < retrans+2 && !done; step++ {
		// the CERs sent so far
		for ; seen < len(t.written); seen++ {
			zzCheckCER(t.written[seen], wantAddrs)
		}
		vAssert(len(t.written) >= 1, "a CER has been sent")
		switch vChoice("peer", vParam("PEERKINDS", 3)) {
		case 3: // the peer sends a CER of its own and an application answer before answering the client's CER
			pc, pe := zzCER(4, 0, true).Serialize()
			early := diam.NewMessage(diam.CreditControl, 0, 4, 55, 56, dict.Default)
			early.NewAVP(avp.SessionID, avp.Mbit, 0, datatype.UTF8String("s;0"))
			eb, ee := early.Serialize()
			vAssume(pe == nil && ee == nil)
			t.in <- pc
			t.in <- eb
			vQuiesce()
			vAssert(len(answers) == 0, "C10 (client side): no application handler runs before the client's own CER/CEA exchange has succeeded")
			vAssert(!done, "a CER from the peer does not settle the client's handshake")
		case 0: // answer
			cer, err := diam.ReadMessage(&zzReader{b: t.written[len(t.written)-1]}, dict.Default)
			vAssume(err == nil)
			b, ok := zzPeerCEA(cer, "cea", vParam("CEAKINDS", 5))
			t.in <- b
			vQuiesce()
			vAssert(done, "a CEA settles the handshake one way or the other")
			gotAcceptable = ok
		case 1: // silence until the next timer
			vQuiesce()
			vAdvance()
			vQuiesce()
		case 2: // disconnect
			close(t.in)
			disconnected = true
			vQuiesce()
			// the handshake still runs into its timers
			for !done && vPendingTimers() > 0 {
				vAdvance()
				vQuiesce()
			}
		}
		if disconnected {
			break
		}
	}
	for !done && vPendingTimers() > 0 {
		vAdvance()
		vQuiesce()
	}
	vAssert(done, "the dial returns")
	if !done {
		return
	}
	// transmissions: at most MaxRetransmits+1, at least RetransmitInterval apart
	vAssert(len(t.written) <= retrans+1, "at most MaxRetransmits+1 transmissions of the CER")
	for i := 1; i < len(t.times); i++ {
		vAssert(t.times[i]-t.times[i-1] >= int64(zzTickD), "retransmissions are spaced at least RetransmitInterval apart")
	}
	if herr == ErrHandshakeTimeout && len(t.times) > 0 {
		vAssert(vNow()-t.times[len(t.times)-1] >= int64(zzTickD), "the handshake does not time out before RetransmitInterval has passed since the last transmission")
	}
	vAssert((conn != nil && herr == nil) == gotAcceptable, "a usable connection is returned exactly when a success CEA sharing an application arrived in time")
	if !gotAcceptable {
		vAssert(herr != nil && conn == nil, "otherwise an error is returned")
		vAssert(t.isClosed, "and the transport has been closed")
		vReach("C12_handshake_failed")
		return
	}
	vAssert(!t.isClosed, "after a successful handshake the connection stays open")
	// further or duplicate CEAs after the handshake, then an application answer
	extra := vLen("extraCEAs", 0, vParam("X", 1))
	cer, err := diam.ReadMessage(&zzReader{b: t.written[len(t.written)-1]}, dict.Default)
	vAssume(err == nil)
	for i := 0; i < extra; i++ {
		vKnown("KF-C12-extra-cea-panics", true)
		b, _ := zzPeerCEA(cer, "late", 2)
		t.in <- b
		vQuiesce()
		vAssert(!t.isClosed, "the connection stays open whatever further or duplicate CEAs the peer sends")
	}
	if vParam("DIAL2", 1) == 1 && extra == 0 && zzFlag("secondDial") {
		// the same Client dials a second peer while the first connection is open; an extra CEA on the
		// first connection must not be taken for the second handshake's answer
		t2 := zzNewTransport("198.51.100.8:3868")
		t2.local = "192.0.2.20:3868" // the second connection leaves from another local address
		var conn2 diam.Conn
		var herr2 error
		done2 := false
		go func() {
			conn2, herr2 = cli.NewConn(t2, "zz2")
			done2 = true
		}()
		vQuiesce()
		vAssume(len(t2.written) >= 1 && !done2)
		if configured {
			zzCheckCER(t2.written[0], wantAddrs)
		} else {
			zzCheckCER(t2.written[0], [][4]byte{{192, 0, 2, 20}})
		}
		// (duplicate success or late failure: symbolic result code, application 4)
		crossCEA := cer.Answer(vU32("cross.rc"))
		crossCEA.NewAVP(avp.OriginHost, avp.Mbit, 0, datatype.DiameterIdentity("peer.example"))
		crossCEA.NewAVP(avp.OriginRealm, avp.Mbit, 0, datatype.DiameterIdentity("peers"))
		crossCEA.NewAVP(avp.AuthApplicationID, avp.Mbit, 0, datatype.Unsigned32(4))
		b, be := crossCEA.Serialize()
		vAssume(be == nil)
		t.in <- b
		vQuiesce()
		vAssert(!done2, "a CEA on another connection does not settle this handshake")
		vAssert(!t.isClosed && !t2.isClosed, "both connections stay open")
		cer2, e2 := diam.ReadMessage(&zzReader{b: t2.written[len(t2.written)-1]}, dict.Default)
		vAssume(e2 == nil)
		good := cer2.Answer(diam.Success)
		good.NewAVP(avp.OriginHost, avp.Mbit, 0, datatype.DiameterIdentity("peer2.example"))
		good.NewAVP(avp.OriginRealm, avp.Mbit, 0, datatype.DiameterIdentity("peers"))
		good.NewAVP(avp.AuthApplicationID, avp.Mbit, 0, datatype.Unsigned32(4))
		gb, ge := good.Serialize()
		vAssume(ge == nil)
		t2.in <- gb
		vQuiesce()
		vAssert(done2 && conn2 != nil && herr2 == nil && !t2.isClosed, "the second dial succeeds on its own peer's success CEA")
	}
	ans := diam.NewMessage(diam.CreditControl, 0, 4, 77, 78, dict.Default)
	ans.NewAVP(avp.SessionID, avp.Mbit, 0, datatype.UTF8String("s;1"))
	ab, aerr := ans.Serialize()
	vAssume(aerr == nil)
	t.in <- ab
	vQuiesce()
	vAssert(len(answers) == 1 && answers[0] == 77, "answers are dispatched to the application's handlers after the handshake")
	vAssert(!t.isClosed, "and the connection is still open")
	vReach("C12_handshake_ok")
}

// zzC12_addrs: one Client, no host address configured, two dials leaving from different local
// addresses: every CER carries the local endpoint of its own connection.
func zzC12_addrs() {
	st := New(zzSettings(false))
	cli := zzClient(st, 0, false)
	locals := [2]string{"192.0.2.10:3868", "192.0.2.20:3868"}
	want := [2][4]byte{{192, 0, 2, 10}, {192, 0, 2, 20}}
	first := vChoice("firstLocal", 2)
	for k := 0; k < 2; k++ {
		li := (first + k) % 2
		t := zzNewTransport("198.51.100.7:3868")
		t.local = locals[li]
		var conn diam.Conn
		var herr error
		done := false
		go func() {
			conn, herr = cli.NewConn(t, "zz")
			done = true
		}()
		vQuiesce()
		vAssert(len(t.written) == 1 && !done, "the dial sends its CER and waits")
		if len(t.written) != 1 {
			return
		}
		cer := zzCheckCER(t.written[0], [][4]byte{want[li]})
		if cer == nil {
			return
		}
		// the first dial ends in success or in a failure answer (case split); the second in success
		rc := uint32(diam.Success)
		if k == 0 && zzFlag("firstDialRejected") {
			rc = 5012
		}
		a := cer.Answer(rc)
		a.NewAVP(avp.OriginHost, avp.Mbit, 0, datatype.DiameterIdentity("peer.example"))
		a.NewAVP(avp.OriginRealm, avp.Mbit, 0, datatype.DiameterIdentity("peers"))
		a.NewAVP(avp.AuthApplicationID, avp.Mbit, 0, datatype.Unsigned32(4))
		b, berr := a.Serialize()
		vAssume(berr == nil)
		t.in <- b
		vQuiesce()
		vAssert(done && (conn != nil && herr == nil) == (rc == diam.Success), "the dial is settled by the CEA")
	}
	vReach("C12_addrs")
}

// zzC12_writefault: the k-th CER transmission (first or a retransmission) cannot be written while the
// read side of the transport stays alive and the peer stays silent: the dial returns an error and the
// transport has been closed.
func zzC12_writefault() {
	st := New(zzSettings(true))
	retrans := vLen("retransmits", 0, vParam("R", 1))
	cli := zzClient(st, retrans, false)
	t := zzNewTransport("198.51.100.7:3868")
	t.failWriteAt = 1 + vChoice("faultAt", retrans+1)
	var conn diam.Conn
	var herr error
	done := false
	go func() {
		conn, herr = cli.NewConn(t, "zz")
		done = true
	}()
	vQuiesce()
	for !done && vPendingTimers() > 0 {
		vAdvance()
		vQuiesce()
	}
	vAssert(done, "the dial returns")
	vAssert(conn == nil && herr != nil, "a CER that cannot be written fails the dial")
	vAssert(t.isClosed, "and the transport has been closed")
	vAssert(len(t.written) <= retrans+1, "never more than MaxRetransmits+1 transmissions")
	vReach("C12_writefault")
}
