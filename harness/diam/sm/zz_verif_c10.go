package sm

import (
	"github.com/fiorix/go-diameter/v4/diam"
	"github.com/fiorix/go-diameter/v4/diam/avp"
	"github.com/fiorix/go-diameter/v4/diam/datatype"
	"github.com/fiorix/go-diameter/v4/diam/dict"
	"github.com/fiorix/go-diameter/v4/diam/sm/smpeer"
)

// C10: no application handler runs before the capabilities exchange succeeds.

// zzC10_gate: histories of <= H messages from the alphabet {acceptable CER, CER without common
// application, CER requiring in-band security, retransmitted CER, DWR, application request by name,
// application request by index, application answer, unregistered command} fed to a server state
// machine with instrumented application handlers registered by name, by index and as catch-all.
func zzC10_gate() {
	st := New(zzSettings(true))
	var fired []int
	// registrations by name are made through either entry point: HandleFunc, or Handle with a Handler object
	asObject := zzFlag("registerWithHandle")
	reg := func(cmd string, id int) {
		f := func(c diam.Conn, m *diam.Message) { fired = append(fired, id) }
		if asObject {
			st.Handle(cmd, diam.HandlerFunc(f))
		} else {
			st.HandleFunc(cmd, f)
		}
	}
	reg("CCR", 1)
	reg("CCA", 2)
	rarIdx := diam.CommandIndex{AppID: 4, Code: diam.ReAuth, Request: true}
	st.HandleIdx(rarIdx, diam.HandlerFunc(func(c diam.Conn, m *diam.Message) { fired = append(fired, 3) }))
	reg("ALL", 4)
	// attempts to replace the built-ins must be refused
	reg("CER", 90)
	reg("CEA", 91)
	reg("DWR", 92)
	st.HandleIdx(baseCERIdx, diam.HandlerFunc(func(c diam.Conn, m *diam.Message) { fired = append(fired, 93) }))
	st.HandleIdx(baseDWRIdx, diam.HandlerFunc(func(c diam.Conn, m *diam.Message) { fired = append(fired, 94) }))
	for {
		select {
		case <-st.ErrorReports():
			continue
		default:
		}
		break
	}
	c := &zzConn{local: "192.0.2.77:3868"}
	handshaken := false
	h := vLen("history", 1, vParam("H", 3))
	for i := 0; i < h; i++ {
		before := len(fired)
		wrote := len(c.written)
		kind := vChoice("msg", 9)
		switch kind {
		case 0, 3: // acceptable CER (3: retransmission of an earlier CER -- same shape)
			lost := !handshaken && zzFlag("ceaWriteFails")
			if lost {
				c.failWrites = 1
			}
			st.ServeDIAM(c, zzCER(4, 0, true))
			vAssert(len(fired) == before, "CER is processed by the built-in handler, never by an application handler")
			if lost {
				// the success CEA never reached the peer: the exchange has not succeeded
				vAssert(len(c.written) == wrote, "nothing was written")
				c.failWrites = 0
			} else if !handshaken {
				a := zzLastAnswer(c)
				vAssert(len(c.written) == wrote+1 && a != nil, "CER is answered")
				if a != nil {
					rc, _ := zzU32AVP(a, avp.ResultCode)
					vAssert(rc == diam.Success, "acceptable CER is answered with success")
				}
				handshaken = true
			}
		case 1: // CER without a common application
			st.ServeDIAM(c, zzCER(7777, 0, false)) // an id the dictionary does not define (the id space is C11's subject)
			vAssert(len(fired) == before, "CER is never dispatched to an application handler")
		case 2: // CER requiring in-band security
			sec := vU32("sec")
			vAssume(sec != 0)
			st.ServeDIAM(c, zzCER(4, sec, true))
			vAssert(len(fired) == before, "CER is never dispatched to an application handler")
		case 4: // DWR
			req := zzDWR()
			st.ServeDIAM(c, req)
			vAssert(len(fired) == before, "DWR is processed by the built-in handler")
			if handshaken {
				a := zzLastAnswer(c)
				vAssert(len(c.written) == wrote+1 && a != nil, "C13: a DWR from a handshaken peer is answered")
				if a != nil {
					rc, _ := zzU32AVP(a, avp.ResultCode)
					vAssert(rc == diam.Success && a.Header.CommandCode == diam.DeviceWatchdog && a.Header.CommandFlags&diam.RequestFlag == 0, "C13: with a success DWA")
					vAssert(a.Header.HopByHopID == req.Header.HopByHopID && a.Header.EndToEndID == req.Header.EndToEndID, "C13: carrying the request's identifiers")
					oh, e1 := a.FindAVP(avp.OriginHost, 0)
					or, e2 := a.FindAVP(avp.OriginRealm, 0)
					vAssert(e1 == nil && e2 == nil && oh.Data.(datatype.DiameterIdentity) == "srv.example" && or.Data.(datatype.DiameterIdentity) == "example", "C13: and the local identity")
				}
			}
		case 5: // application request registered by name
			st.ServeDIAM(c, zzAppMsg(diam.CreditControl, 4, true))
			zzExpect(fired, before, handshaken, 1)
		case 6: // application request registered by index
			st.ServeDIAM(c, zzAppMsg(diam.ReAuth, 4, true))
			zzExpect(fired, before, handshaken, 3)
		case 7: // application answer registered by name
			st.ServeDIAM(c, zzAppMsg(diam.CreditControl, 4, false))
			zzExpect(fired, before, handshaken, 2)
		case 8: // a command with no registration of its own: catch-all
			st.ServeDIAM(c, zzAppMsg(diam.AbortSession, 4, true))
			zzExpect(fired, before, handshaken, 4)
		}
		// (after a rejected CER the connection is closed, but requests the peer pipelined behind the CER
		// are still read from the connection's buffer and dispatched: the history goes on)
		_, hasMeta := smpeer.FromContext(c.Context())
		vObserve("fired", uint64(len(fired)))
		vObserve("written", uint64(len(c.written)))
		vObserve("meta", zzB2U(hasMeta))
		vAssert(hasMeta == handshaken, "metadata present exactly after a successful exchange")
	}
	vReach("C10_gate")
}

func zzExpect(fired []int, before int, handshaken bool, id int) {
	if handshaken {
		vAssert(len(fired) == before+1 && fired[before] == id, "after the handshake the matching application handler is invoked, exactly once")
	} else {
		vAssert(len(fired) == before, "no application handler runs before the capabilities exchange succeeds")
	}
}

// zzC13_dwr: one DWR with unconstrained identifiers (zero included) after a handshake.
func zzC13_dwr() {
	st := New(zzSettings(true))
	c := &zzConn{local: "192.0.2.77:3868"}
	st.ServeDIAM(c, zzCER(4, 0, true))
	_, ok := smpeer.FromContext(c.Context())
	vAssume(ok)
	req := diam.NewRequest(diam.DeviceWatchdog, 0, dict.Default)
	req.Header.HopByHopID, req.Header.EndToEndID = vU32("dhbh"), vU32("de2e")
	req.Header.CommandFlags = diam.RequestFlag | vU8("dwrflags")&0x70
	req.NewAVP(avp.OriginHost, avp.Mbit, 0, datatype.DiameterIdentity("peer.example"))
	req.NewAVP(avp.OriginRealm, avp.Mbit, 0, datatype.DiameterIdentity("peers"))
	wrote := len(c.written)
	st.ServeDIAM(c, req)
	a := zzLastAnswer(c)
	vAssert(len(c.written) == wrote+1 && a != nil, "a DWR from a handshaken peer is answered")
	if a != nil {
		rc, _ := zzU32AVP(a, avp.ResultCode)
		vAssert(rc == diam.Success && a.Header.CommandCode == diam.DeviceWatchdog && a.Header.CommandFlags&diam.RequestFlag == 0, "with a success DWA")
		vAssert(a.Header.HopByHopID == req.Header.HopByHopID && a.Header.EndToEndID == req.Header.EndToEndID, "carrying the request's identifiers (zero included)")
		vAssert(a.Header.CommandFlags&diam.ProxiableFlag == req.Header.CommandFlags&diam.ProxiableFlag, "proxiable bit unchanged")
	}
	vReach("C13_dwr")
}

// zzC10_client: the client side of the gate. A Client dials; before answering the client's CER the
// peer sends (case split, <= E messages) a CER of its own, application answers registered by name /
// by index / caught by the catch-all, a DWR; then a success CEA, a failure CEA, or nothing more.
// No application handler runs before the success CEA; afterwards each matching message runs its handler.
func zzC10_client() {
	st := New(zzSettings(true))
	var fired []int
	st.HandleFunc("CCA", func(c diam.Conn, m *diam.Message) { fired = append(fired, 2) })
	st.HandleIdx(diam.CommandIndex{AppID: 4, Code: diam.ReAuth, Request: true}, diam.HandlerFunc(func(c diam.Conn, m *diam.Message) { fired = append(fired, 3) }))
	st.HandleFunc("ALL", func(c diam.Conn, m *diam.Message) { fired = append(fired, 4) })
	cli := zzClient(st, 0, false)
	t := zzNewTransport("198.51.100.7:3868")
	var conn diam.Conn
	var herr error
	done := false
	go func() {
		conn, herr = cli.NewConn(t, "zz")
		done = true
	}()
	vQuiesce()
	vAssume(len(t.written) == 1 && !done)
	send := func(m *diam.Message) {
		b, err := m.Serialize()
		vAssume(err == nil)
		t.in <- b
		vQuiesce()
	}
	early := vLen("early", 0, vParam("E", 2))
	for i := 0; i < early; i++ {
		switch vChoice("earlymsg", 5) {
		case 0:
			send(zzCER(4, 0, true))
		case 1:
			send(zzAppMsg(diam.CreditControl, 4, false))
		case 2:
			send(zzAppMsg(diam.ReAuth, 4, true))
		case 3:
			send(zzAppMsg(diam.AbortSession, 4, true))
		case 4:
			send(zzDWR())
		}
		vAssert(len(fired) == 0, "client side: no application handler runs before the client's CER/CEA exchange has succeeded")
		vAssert(!done, "only a CEA settles the client's handshake")
	}
	cer, cerr := diam.ReadMessage(&zzReader{b: t.written[0]}, dict.Default)
	vAssume(cerr == nil)
	rc := uint32(diam.Success)
	if zzFlag("rejected") {
		rc = vU32("rc")
		vAssume(rc != diam.Success)
	}
	a := cer.Answer(rc)
	a.NewAVP(avp.OriginHost, avp.Mbit, 0, datatype.DiameterIdentity("peer.example"))
	a.NewAVP(avp.OriginRealm, avp.Mbit, 0, datatype.DiameterIdentity("peers"))
	a.NewAVP(avp.AuthApplicationID, avp.Mbit, 0, datatype.Unsigned32(4))
	send(a)
	vAssert(done, "the CEA settles the handshake")
	vAssert((conn != nil && herr == nil) == (rc == diam.Success), "success exactly on a success CEA sharing an application")
	vAssert(len(fired) == 0, "the CEA itself reaches no application handler")
	if rc != diam.Success {
		vReach("C10_client_rejected")
		return
	}
	send(zzAppMsg(diam.CreditControl, 4, false))
	send(zzAppMsg(diam.ReAuth, 4, true))
	send(zzAppMsg(diam.AbortSession, 4, true))
	vAssert(len(fired) == 3 && fired[0] == 2 && fired[1] == 3 && fired[2] == 4, "after the handshake every matching message runs its handler, once")
	vReach("C10_client")
}

// zzC10_client_early: a rejecting CEA (and application messages behind it) reaches the client while
// the dialling goroutine is still inside the write of its CER (a transport slow to accept it): the
// dial must fail and no application handler may run, then or afterwards.
func zzC10_client_early() {
	st := New(zzSettings(true))
	var fired []int
	st.HandleFunc("CCA", func(c diam.Conn, m *diam.Message) { fired = append(fired, 2) })
	st.HandleIdx(diam.CommandIndex{AppID: 4, Code: diam.ReAuth, Request: true}, diam.HandlerFunc(func(c diam.Conn, m *diam.Message) { fired = append(fired, 3) }))
	st.HandleFunc("ALL", func(c diam.Conn, m *diam.Message) { fired = append(fired, 4) })
	cli := zzClient(st, vLen("retransmits", 0, 1), false)
	t := zzNewTransport("198.51.100.7:3868")
	t.slowWrites, t.writeDelay = 1, zzTickD/2
	var conn diam.Conn
	var herr error
	done := false
	go func() {
		conn, herr = cli.NewConn(t, "zz")
		done = true
	}()
	vQuiesce()
	vAssume(len(t.written) == 0 && !done) // the CER is still being written
	rc := vU32("rc")
	vAssume(rc != diam.Success)
	cea := diam.NewMessage(diam.CapabilitiesExchange, 0, 0, 7, 8, dict.Default)
	cea.NewAVP(avp.ResultCode, avp.Mbit, 0, datatype.Unsigned32(rc))
	cea.NewAVP(avp.OriginHost, avp.Mbit, 0, datatype.DiameterIdentity("peer.example"))
	cea.NewAVP(avp.OriginRealm, avp.Mbit, 0, datatype.DiameterIdentity("peers"))
	cea.NewAVP(avp.AuthApplicationID, avp.Mbit, 0, datatype.Unsigned32(4))
	for _, m := range []*diam.Message{cea, zzAppMsg(diam.CreditControl, 4, false), zzAppMsg(diam.ReAuth, 4, true), zzAppMsg(diam.AbortSession, 4, true)} {
		b, err := m.Serialize()
		vAssume(err == nil)
		t.in <- b
	}
	vQuiesce()
	vAssert(len(fired) == 0, "client side: no application handler runs on a rejecting CEA, whenever it arrives")
	for !done && vPendingTimers() > 0 {
		vAdvance()
		vQuiesce()
	}
	vAssert(done && conn == nil && herr != nil, "the dial fails")
	vAssert(len(fired) == 0, "and no application handler has run")
	vAssert(t.isClosed, "the transport is closed")
	vReach("C10_client_early")
}
