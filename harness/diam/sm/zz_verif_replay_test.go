package sm

import (
	"fmt"
	"os"
	"runtime/debug"
	"testing"
)

// TestVerifReplay runs one harness natively on a counterexample vector.
func TestVerifReplay(t *testing.T) {
	path := os.Getenv("VERIF_REPLAY")
	if path == "" {
		t.Skip("no VERIF_REPLAY")
	}
	if err := zzLoadVector(path); err != nil {
		t.Fatalf("cannot load vector: %v", err)
	}
	defer func() {
		if r := recover(); r != nil {
			switch x := r.(type) {
			case zzDiverged:
				fmt.Println("VERIF-REPLAY-DIVERGED:", x.msg)
			case zzAssertFail:
				t.Fatalf("VERIF-ASSERT %s", x.label)
			default:
				t.Fatalf("VERIF-PANIC: %v\n%s", r, debug.Stack())
			}
		}
	}()
	zzVerifEntry()
	vAllocCheck()
	zzDumpObs()
	fmt.Println("VERIF-REPLAY-OK")
}
