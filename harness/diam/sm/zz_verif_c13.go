package sm

import (
	"github.com/fiorix/go-diameter/v4/diam"
	"github.com/fiorix/go-diameter/v4/diam/avp"
	"github.com/fiorix/go-diameter/v4/diam/datatype"
	"github.com/fiorix/go-diameter/v4/diam/dict"
)

// C13 (client side): the watchdog detects a silent peer and spares a responsive one.

func zzDWA(dwr *diam.Message, rc uint32) []byte {
	a := dwr.Answer(rc)
	a.NewAVP(avp.OriginHost, avp.Mbit, 0, datatype.DiameterIdentity("peer.example"))
	a.NewAVP(avp.OriginRealm, avp.Mbit, 0, datatype.DiameterIdentity("peers"))
	b, err := a.Serialize()
	vAssume(err == nil)
	return b
}

func zzSameBytes(a, b []byte) bool {
	if len(a) != len(b) {
		return false
	}
	for i := range a {
		if a[i] != b[i] {
			return false
		}
	}
	return true
}

// zzAdvanceUntilWrite advances the logical clock timer by timer until the client writes something
// or closes the transport; returns the number of timer firings needed.
func zzAdvanceUntilWrite(t *zzTransport, max int) int {
	n0 := len(t.written)
	k := 0
	for len(t.written) == n0 && !t.isClosed && k < max {
		if !vAdvance() {
			break
		}
		vQuiesce()
		k++
	}
	return k
}

// zzC13_watchdog: client with EnableWatchdog after a successful handshake; MaxRetransmits 0..R;
// P watchdog periods; per DWR transmission the peer (case-split) answers with a success DWA, a failure
// DWA (symbolic non-2001 result code) or not at all.
func zzC13_watchdog() {
	st := New(zzSettings(true))
	retrans := vLen("retransmits", 0, vParam("R", 1))
	cli := zzClient(st, retrans, true)
	t := zzNewTransport("198.51.100.7:3868")
	var conn diam.Conn
	var herr error
	done := false
	go func() {
		conn, herr = cli.NewConn(t, "zz")
		done = true
	}()
	vQuiesce()
	vAssume(len(t.written) == 1)
	cer, err := diam.ReadMessage(&zzReader{b: t.written[0]}, dict.Default)
	vAssume(err == nil)
	cea := cer.Answer(diam.Success)
	cea.NewAVP(avp.OriginHost, avp.Mbit, 0, datatype.DiameterIdentity("peer.example"))
	cea.NewAVP(avp.OriginRealm, avp.Mbit, 0, datatype.DiameterIdentity("peers"))
	cea.NewAVP(avp.AuthApplicationID, avp.Mbit, 0, datatype.Unsigned32(4))
	cb, cerr := cea.Serialize()
	vAssume(cerr == nil)
	t.in <- cb
	vQuiesce()
	vAssume(done && herr == nil && conn != nil)
	idle := vNow() // the watchdog's interval timer was armed now
	periods := vParam("P", 2)
	for p := 0; p < periods; p++ {
		n0 := len(t.written)
		zzAdvanceUntilWrite(t, 4)
		vAssert(!t.isClosed, "a responsive peer's connection is not closed")
		vAssert(len(t.written) == n0+1, "a device-watchdog request is sent")
		if len(t.written) != n0+1 {
			return
		}
		vAssert(t.times[n0]-idle == int64(cli.WatchdogInterval), "every WatchdogInterval")
		dwr, derr := diam.ReadMessage(&zzReader{b: t.written[n0]}, dict.Default)
		vAssert(derr == nil && dwr.Header.CommandCode == diam.DeviceWatchdog && dwr.Header.CommandFlags&diam.RequestFlag != 0, "it is a DWR")
		if derr != nil {
			return
		}
		oh, e1 := dwr.FindAVP(avp.OriginHost, 0)
		or, e2 := dwr.FindAVP(avp.OriginRealm, 0)
		vAssert(e1 == nil && e2 == nil && oh.Data.(datatype.DiameterIdentity) == "srv.example" && or.Data.(datatype.DiameterIdentity) == "example", "carrying the client's identity")
		// transmissions of this request: the first plus up to MaxRetransmits retransmissions
		answered := false
		for tx := 0; tx <= retrans && !answered; tx++ {
			last := len(t.written) - 1
			if tx > 0 {
				vAssert(zzSameBytes(t.written[last], t.written[n0]), "the same request is retransmitted")
				vAssert(t.times[last]-t.times[last-1] == int64(cli.RetransmitInterval), "at RetransmitInterval")
			}
			switch vChoice("dwa", 4) {
			case 3: // the peer answers twice (duplicate success DWA): still one answer
				t.in <- zzDWA(dwr, diam.Success)
				vQuiesce()
				fallthrough
			case 0:
				t.in <- zzDWA(dwr, diam.Success)
				vQuiesce()
				answered = true
			case 1:
				rc := vU32("failrc")
				vAssume(rc != diam.Success)
				t.in <- zzDWA(dwr, rc)
				vQuiesce()
			case 2:
			}
			if answered {
				break
			}
			// unanswered: the retransmission timer fires
			w0 := len(t.written)
			vAssert(!t.isClosed, "not closed before the retransmission budget is used up")
			vAdvance()
			vQuiesce()
			if tx < retrans {
				vAssert(len(t.written) == w0+1 && !t.isClosed, "an unanswered request is retransmitted MaxRetransmits times")
				if len(t.written) != w0+1 {
					return
				}
			} else {
				vAssert(len(t.written) == w0 && t.isClosed, "then the connection is closed")
				vQuiesce()
				vAssert(vLeaks() == 0, "and the watchdog goroutine exits with the connection")
				vReach("C13_watchdog_closed")
				return
			}
		}
		vAssert(!t.isClosed, "while each request is answered with a success answer the client never closes the connection")
		idle = vNow()
	}
	vReach("C13_watchdog_alive")
}
