package sm

import (
	"io"
	"net"
	"time"
)

// ---- in-memory transport for the connection-level harnesses ----

type zzTransErr struct{ msg string }

func (e *zzTransErr) Error() string   { return e.msg }
func (e *zzTransErr) Timeout() bool   { return false }
func (e *zzTransErr) Temporary() bool { return false }

// zzTransport is a net.Conn whose Read blocks on a channel fed by the harness script.
type zzTransport struct {
	in       chan []byte // segments delivered by the peer; a nil segment means "read error"; close = peer EOF
	rest     []byte
	closed   chan struct{}
	isClosed bool
	closes   int
	written  [][]byte
	times    []int64 // logical time at which each write completed
	// slowWrites: the next n writes each take writeDelay (a peer slow to drain the transport)
	slowWrites int
	writeDelay time.Duration
	name       string
	reads      int
	// eofWithData: the Read that hands out the last byte of the current segment also reports io.EOF
	// (allowed by the io.Reader contract; crypto/tls does it when close_notify follows the last record)
	eofWithData bool
	eof         bool
	local       string // local endpoint (default 192.0.2.10:3868)
	// failWriteAt: the k-th Write (1-based) fails with a transport error while reads stay alive
	failWriteAt int
	writes      int
}

func zzNewTransport(name string) *zzTransport {
	return &zzTransport{in: make(chan []byte, 16), closed: make(chan struct{}), name: name}
}

func (t *zzTransport) Read(p []byte) (int, error) {
	vJitter()
	t.reads++
	if t.eof {
		return 0, io.EOF
	}
	for len(t.rest) == 0 {
		select {
		case b, ok := <-t.in:
			if !ok {
				return 0, io.EOF
			}
			if b == nil {
				return 0, &zzTransErr{"zz: transport read error"}
			}
			t.rest = b
		case <-t.closed:
			return 0, &zzTransErr{"zz: use of closed connection"}
		}
	}
	n := copy(p, t.rest)
	t.rest = t.rest[n:]
	if t.eofWithData && len(t.rest) == 0 {
		t.eof = true
		return n, io.EOF
	}
	return n, nil
}

func (t *zzTransport) Write(p []byte) (int, error) {
	if t.isClosed {
		return 0, &zzTransErr{"zz: write on closed connection"}
	}
	t.writes++
	if t.failWriteAt == t.writes {
		return 0, &zzTransErr{"zz: transport write error"}
	}
	if t.slowWrites > 0 {
		t.slowWrites--
		time.Sleep(t.writeDelay)
	}
	t.written = append(t.written, append([]byte(nil), p...))
	t.times = append(t.times, vNow())
	return len(p), nil
}

func (t *zzTransport) Close() error {
	t.closes++
	if !t.isClosed {
		t.isClosed = true
		close(t.closed)
	}
	return nil
}
func (t *zzTransport) LocalAddr() net.Addr {
	if t.local != "" {
		return zzNamedAddr{t.local}
	}
	return zzNamedAddr{"192.0.2.10:3868"}
}
func (t *zzTransport) RemoteAddr() net.Addr               { return zzNamedAddr{t.name} }
func (t *zzTransport) SetDeadline(d time.Time) error      { return nil }
func (t *zzTransport) SetReadDeadline(d time.Time) error  { return nil }
func (t *zzTransport) SetWriteDeadline(d time.Time) error { return nil }

type zzNamedAddr struct{ s string }

func (a zzNamedAddr) Network() string { return "zz" }
func (a zzNamedAddr) String() string  { return a.s }
