package sm

import (
	"github.com/fiorix/go-diameter/v4/diam"
	"github.com/fiorix/go-diameter/v4/diam/avp"
	"github.com/fiorix/go-diameter/v4/diam/datatype"
	"github.com/fiorix/go-diameter/v4/diam/dict"
)

// zzC11_wire: a CER as it arrives from the wire: a well-formed identity part followed by one AVP whose
// code is one of the capability AVPs and whose flags (V bit!), vendor id, declared length and payload
// are symbolic; decoded by ReadMessage with the embedded dictionary and handed to the state machine
// inside the connection's real recover scope. Whatever the peer sends, the server either answers
// with a CEA or ... it must answer: "in every other case it replies with a failure result code".
func zzC11_wire() {
	st := New(zzSettings(true))
	m := diam.NewRequest(diam.CapabilitiesExchange, 0, dict.Default)
	m.NewAVP(avp.OriginHost, avp.Mbit, 0, datatype.DiameterIdentity("peer.example"))
	m.NewAVP(avp.OriginRealm, avp.Mbit, 0, datatype.DiameterIdentity("peers"))
	m.NewAVP(avp.AuthApplicationID, avp.Mbit, 0, datatype.Unsigned32(4))
	head, err := m.Serialize()
	vAssume(err == nil)
	code := [5]uint32{avp.InbandSecurityID, avp.AuthApplicationID, avp.AcctApplicationID, avp.OriginStateID, avp.VendorSpecificApplicationID}[vChoice("code", 5)]
	pl := 4 * vLen("payload4", 1, vParam("PL", 3))
	extra := vBytes("avp", 12+pl)
	extra[0], extra[1], extra[2], extra[3] = byte(code>>24), byte(code>>16), byte(code>>8), byte(code)
	l := int(extra[5])<<16 | int(extra[6])<<8 | int(extra[7])
	hdr := 8
	if extra[4]&0x80 != 0 {
		hdr = 12
	}
	// a well-framed AVP: header <= Length <= bytes present (framing itself is C04's subject)
	vAssume(l >= hdr && l <= len(extra) && l > len(extra)-4)
	vKnown("KF-C11-vendor-flagged-capability-avp", extra[4]&0x80 != 0)
	wire := append(append([]byte(nil), head...), extra...)
	n := len(wire)
	wire[1], wire[2], wire[3] = byte(n>>16), byte(n>>8), byte(n)
	req, rerr := diam.ReadMessage(&zzReader{b: wire}, dict.Default)
	vAssume(rerr == nil)
	c := &zzConn{local: "192.0.2.77:3868"}
	panicked := false
	func() {
		// the connection's serve loop recovers handler panics and closes the connection
		defer func() {
			if r := recover(); r != nil {
				panicked = true
			}
		}()
		st.ServeDIAM(c, req)
	}()
	vAssert(!panicked, "no capabilities-exchange request makes the handler panic")
	vAssert(len(c.written) == 1, "every CER is answered with a CEA")
	if len(c.written) == 1 {
		cea, e := diam.ReadMessage(&zzReader{b: c.written[0]}, dict.Default)
		vAssert(e == nil, "the CEA is well-formed")
		if e == nil {
			rc, ok := zzU32AVP(cea, avp.ResultCode)
			vAssert(ok && (rc == diam.Success || c.closed > 0), "a failure answer comes with closing the connection")
		}
	}
	vReach("C11_wire")
}
