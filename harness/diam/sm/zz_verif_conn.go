package sm

import (
	"context"
	"crypto/tls"
	"io"
	"net"
	"time"

	"github.com/fiorix/go-diameter/v4/diam"
	"github.com/fiorix/go-diameter/v4/diam/avp"
	"github.com/fiorix/go-diameter/v4/diam/datatype"
	"github.com/fiorix/go-diameter/v4/diam/dict"
)

type zzAddr struct{ s string }

func (a zzAddr) Network() string { return "tcp" }
func (a zzAddr) String() string  { return a.s }

// zzConn is a diam.Conn that records what the state machine writes.
type zzConn struct {
	written [][]byte
	closed  int
	ctx     context.Context
	local   string
	streams []uint
	// failWrites makes the transport refuse the next writes (a peer that went away)
	failWrites int
}

type zzWriteErr struct{}

func (zzWriteErr) Error() string { return "zz: write refused" }

func (c *zzConn) Write(b []byte) (int, error) {
	if c.failWrites > 0 {
		c.failWrites--
		return 0, zzWriteErr{}
	}
	c.written = append(c.written, append([]byte(nil), b...))
	return len(b), nil
}
func (c *zzConn) WriteStream(b []byte, stream uint) (int, error) {
	c.streams = append(c.streams, stream)
	return c.Write(b)
}
func (c *zzConn) Close()                    { c.closed++ }
func (c *zzConn) LocalAddr() net.Addr       { return zzAddr{c.local} }
func (c *zzConn) RemoteAddr() net.Addr      { return zzAddr{"10.9.9.9:5555"} }
func (c *zzConn) TLS() *tls.ConnectionState { return nil }
func (c *zzConn) Dictionary() *dict.Parser  { return dict.Default }
func (c *zzConn) Context() context.Context {
	if c.ctx == nil {
		c.ctx = context.Background()
	}
	return c.ctx
}
func (c *zzConn) SetContext(ctx context.Context) { c.ctx = ctx }
func (c *zzConn) Connection() net.Conn           { return nil }

var _ diam.Conn = (*zzConn)(nil)

type zzReader struct {
	b   []byte
	off int
}

func (r *zzReader) Read(p []byte) (int, error) {
	if r.off >= len(r.b) {
		return 0, zzEOF
	}
	n := copy(p, r.b[r.off:])
	r.off += n
	return n, nil
}

func zzFlag(tag string) bool { return vChoice(tag, 2) == 1 }

func zzB2U(b bool) uint64 {
	if b {
		return 1
	}
	return 0
}

var zzEOF = io.EOF

// zzSup is the reference "the local dictionary supports application id with this type" (DESIGN B.6),
// computed over the public list of loaded applications: a declaration of the id with that type, or
// without a type (an untyped declaration serves every type).
func zzSup(id uint32, typ string) bool {
	for _, a := range dict.Default.Apps() {
		if a.ID == id && (a.Type == typ || a.Type == "") {
			return true
		}
	}
	return false
}

type zzAppAVP struct {
	id   uint32
	acct bool
}

func zzSettings(withAddrs bool) *Settings {
	s := &Settings{
		OriginHost:       datatype.DiameterIdentity("srv.example"),
		OriginRealm:      datatype.DiameterIdentity("example"),
		VendorID:         13,
		ProductName:      "zz",
		FirmwareRevision: 1,
	}
	if withAddrs {
		s.HostIPAddresses = []datatype.Address{datatype.Address([]byte{192, 0, 2, 1}), datatype.Address([]byte{192, 0, 2, 2})}
	}
	return s
}

func zzU32AVP(m *diam.Message, code uint32) (uint32, bool) {
	a, err := m.FindAVP(code, 0)
	if err != nil {
		return 0, false
	}
	v, ok := a.Data.(datatype.Unsigned32)
	return uint32(v), ok
}

// zzIDs: symbolic non-zero identifiers (zero identifiers are the subject of C16 / zzC11_cer / zzC13_dwr;
// excluding them here avoids a four-way split inside every Answer call of a history)
func zzIDs(m *diam.Message) {
	m.Header.HopByHopID, m.Header.EndToEndID = vU32("hbh"), vU32("e2e")
	vAssume(m.Header.HopByHopID != 0 && m.Header.EndToEndID != 0)
}

func zzCER(appID uint32, inband uint32, withInband bool) *diam.Message {
	m := diam.NewRequest(diam.CapabilitiesExchange, 0, dict.Default)
	zzIDs(m)
	m.NewAVP(avp.OriginHost, avp.Mbit, 0, datatype.DiameterIdentity("peer.example"))
	m.NewAVP(avp.OriginRealm, avp.Mbit, 0, datatype.DiameterIdentity("peers"))
	m.NewAVP(avp.HostIPAddress, avp.Mbit, 0, datatype.Address([]byte{10, 0, 0, 1}))
	m.NewAVP(avp.VendorID, avp.Mbit, 0, datatype.Unsigned32(99))
	m.NewAVP(avp.ProductName, 0, 0, datatype.UTF8String("peer"))
	if withInband {
		m.NewAVP(avp.InbandSecurityID, avp.Mbit, 0, datatype.Unsigned32(inband))
	}
	m.NewAVP(avp.AuthApplicationID, avp.Mbit, 0, datatype.Unsigned32(appID))
	return m
}

func zzDWR() *diam.Message {
	m := diam.NewRequest(diam.DeviceWatchdog, 0, dict.Default)
	zzIDs(m)
	m.NewAVP(avp.OriginHost, avp.Mbit, 0, datatype.DiameterIdentity("peer.example"))
	m.NewAVP(avp.OriginRealm, avp.Mbit, 0, datatype.DiameterIdentity("peers"))
	if zzFlag("dwrOriginState") {
		m.NewAVP(avp.OriginStateID, avp.Mbit, 0, datatype.Unsigned32(vU32("osid")))
	}
	return m
}

func zzAppMsg(code uint32, app uint32, request bool) *diam.Message {
	flags := uint8(0)
	if request {
		flags = diam.RequestFlag
	}
	m := diam.NewMessage(code, flags, app, 1, 1, dict.Default)
	zzIDs(m)
	m.NewAVP(avp.SessionID, avp.Mbit, 0, datatype.UTF8String("s;1"))
	return m
}

// zzLastResultCode parses the most recent message written on c.
func zzLastAnswer(c *zzConn) *diam.Message {
	if len(c.written) == 0 {
		return nil
	}
	m, err := diam.ReadMessage(&zzReader{b: c.written[len(c.written)-1]}, dict.Default)
	if err != nil {
		return nil
	}
	return m
}

const zzTickD = 120 * time.Millisecond // RetransmitInterval (one native tick)

func zzClient(st *StateMachine, retrans int, watchdog bool) *Client {
	return &Client{
		Handler:            st,
		MaxRetransmits:     uint(retrans),
		RetransmitInterval: zzTickD,
		EnableWatchdog:     watchdog,
		WatchdogInterval:   4 * zzTickD,
		AuthApplicationID:  []*diam.AVP{diam.NewAVP(avp.AuthApplicationID, avp.Mbit, 0, datatype.Unsigned32(4))},
		AcctApplicationID:  []*diam.AVP{diam.NewAVP(avp.AcctApplicationID, avp.Mbit, 0, datatype.Unsigned32(3))},
		VendorSpecificApplicationID: []*diam.AVP{diam.NewAVP(avp.VendorSpecificApplicationID, avp.Mbit, 0, &diam.GroupedAVP{AVP: []*diam.AVP{
			diam.NewAVP(avp.VendorID, avp.Mbit, 0, datatype.Unsigned32(10415)),
			diam.NewAVP(avp.AuthApplicationID, avp.Mbit, 0, datatype.Unsigned32(16777251)),
		}})},
	}
}
