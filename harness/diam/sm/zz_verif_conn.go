package sm

import (
	"context"
	"crypto/tls"
	"net"

	"github.com/fiorix/go-diameter/v4/diam"
	"github.com/fiorix/go-diameter/v4/diam/dict"
)

type zzAddr struct{ s string }

func (a zzAddr) Network() string { return "tcp" }
func (a zzAddr) String() string  { return a.s }

// zzConn is a diam.Conn that records what the state machine writes.
type zzConn struct {
	written [][]byte
	closed  int
	ctx     context.Context
	local   string
	streams []uint
	// failWrites makes the transport refuse the next writes (a peer that went away)
	failWrites int
}

type zzWriteErr struct{}

func (zzWriteErr) Error() string { return "zz: write refused" }

func (c *zzConn) Write(b []byte) (int, error) {
	if c.failWrites > 0 {
		c.failWrites--
		return 0, zzWriteErr{}
	}
	c.written = append(c.written, append([]byte(nil), b...))
	return len(b), nil
}
func (c *zzConn) WriteStream(b []byte, stream uint) (int, error) {
	c.streams = append(c.streams, stream)
	return c.Write(b)
}
func (c *zzConn) Close()                    { c.closed++ }
func (c *zzConn) LocalAddr() net.Addr       { return zzAddr{c.local} }
func (c *zzConn) RemoteAddr() net.Addr      { return zzAddr{"10.9.9.9:5555"} }
func (c *zzConn) TLS() *tls.ConnectionState { return nil }
func (c *zzConn) Dictionary() *dict.Parser  { return dict.Default }
func (c *zzConn) Context() context.Context {
	if c.ctx == nil {
		c.ctx = context.Background()
	}
	return c.ctx
}
func (c *zzConn) SetContext(ctx context.Context) { c.ctx = ctx }
func (c *zzConn) Connection() net.Conn           { return nil }

var _ diam.Conn = (*zzConn)(nil)

type zzReader struct {
	b   []byte
	off int
}

func (r *zzReader) Read(p []byte) (int, error) {
	if r.off >= len(r.b) {
		return 0, zzEOF
	}
	n := copy(p, r.b[r.off:])
	r.off += n
	return n, nil
}

func zzFlag(tag string) bool { return vChoice(tag, 2) == 1 }

func zzB2U(b bool) uint64 {
	if b {
		return 1
	}
	return 0
}
