package sm

import (
	"github.com/fiorix/go-diameter/v4/diam"
	"github.com/fiorix/go-diameter/v4/diam/avp"
	"github.com/fiorix/go-diameter/v4/diam/datatype"
	"github.com/fiorix/go-diameter/v4/diam/dict"
	"github.com/fiorix/go-diameter/v4/diam/sm/smpeer"
)

// C11: a CER is accepted exactly when a common application exists.

// zzBuildCER assembles a CER from symbolic parts and returns the reference facts about it.
func zzBuildCER(kmax int, variant int) (m *diam.Message, oh, or bool, inbandPresent bool, inband uint32, apps []zzAppAVP) {
	m = diam.NewRequest(diam.CapabilitiesExchange, 0, dict.Default)
	m.Header.HopByHopID = vU32("hbh")
	m.Header.EndToEndID = vU32("e2e")
	// the proxiable, error and retransmit bits of the request are the peer's choice
	m.Header.CommandFlags = diam.RequestFlag | vU8("cerflags")&0x70
	oh, or = true, true
	if variant == 1 {
		// identity presence combinations (the application list is then limited to one AVP)
		oh, or = zzFlag("originHost"), zzFlag("originRealm")
		vAssume(!oh || !or)
	}
	if oh {
		m.NewAVP(avp.OriginHost, avp.Mbit, 0, datatype.DiameterIdentity("peer.example"))
	}
	if or {
		m.NewAVP(avp.OriginRealm, avp.Mbit, 0, datatype.DiameterIdentity("peers"))
	}
	m.NewAVP(avp.HostIPAddress, avp.Mbit, 0, datatype.Address([]byte{10, 0, 0, 1}))
	m.NewAVP(avp.VendorID, avp.Mbit, 0, datatype.Unsigned32(99))
	m.NewAVP(avp.ProductName, 0, 0, datatype.UTF8String("peer"))
	if variant == 2 {
		m.NewAVP(avp.OriginStateID, avp.Mbit, 0, datatype.Unsigned32(vU32("osid")))
	}
	inbandPresent = zzFlag("inband")
	if inbandPresent {
		inband = vU32("inbandval")
		m.NewAVP(avp.InbandSecurityID, avp.Mbit, 0, datatype.Unsigned32(inband))
	}
	k := vLen("apps", 0, kmax)
	for i := 0; i < k; i++ {
		id := vU32("appid")
		switch vChoice("appkind", 4) {
		case 0:
			m.NewAVP(avp.AcctApplicationID, avp.Mbit, 0, datatype.Unsigned32(id))
			apps = append(apps, zzAppAVP{id, true})
		case 1:
			m.NewAVP(avp.AuthApplicationID, avp.Mbit, 0, datatype.Unsigned32(id))
			apps = append(apps, zzAppAVP{id, false})
		case 2: // vendor-specific group: Vendor-Id first
			acct := zzFlag("vsacct")
			code := uint32(avp.AuthApplicationID)
			if acct {
				code = avp.AcctApplicationID
			}
			m.NewAVP(avp.VendorSpecificApplicationID, avp.Mbit, 0, &diam.GroupedAVP{AVP: []*diam.AVP{
				diam.NewAVP(avp.VendorID, avp.Mbit, 0, datatype.Unsigned32(vU32("vsvendor"))),
				diam.NewAVP(code, avp.Mbit, 0, datatype.Unsigned32(id)),
			}})
			apps = append(apps, zzAppAVP{id, acct})
		case 3: // vendor-specific group: application id first, no Vendor-Id
			acct := zzFlag("vsacct")
			code := uint32(avp.AuthApplicationID)
			if acct {
				code = avp.AcctApplicationID
			}
			m.NewAVP(avp.VendorSpecificApplicationID, avp.Mbit, 0, &diam.GroupedAVP{AVP: []*diam.AVP{
				diam.NewAVP(code, avp.Mbit, 0, datatype.Unsigned32(id)),
			}})
			apps = append(apps, zzAppAVP{id, acct})
		}
	}
	return
}

func zzC11_cer() {
	// variant 0: identity present, configured addresses: the full application multiset (<= K AVPs)
	// variant 1: Origin-Host / Origin-Realm missing; 2: Origin-State-Id present; 3: no configured
	// host addresses (local endpoint's address) -- each with <= 1 application AVP
	variant := vChoice("variant", 4)
	withAddrs := variant != 3
	st := New(zzSettings(withAddrs))
	kmax := vParam("K", 2)
	if variant != 0 {
		kmax = vParam("VARK", 1)
	}
	m, oh, or, inbandPresent, inband, apps := zzBuildCER(kmax, variant)
	c := &zzConn{local: "192.0.2.77:3868"}
	st.ServeDIAM(c, m)
	// reference decision
	common := false
	var shared []uint32
	for _, a := range apps {
		typ := "auth"
		if a.acct {
			typ = "acct"
		}
		if a.id == 0xffffffff || zzSup(a.id, typ) {
			common = true
			shared = append(shared, a.id)
		}
	}
	noSecurity := inbandPresent && inband != 0
	accept := oh && or && !noSecurity && common
	for _, id := range shared {
		if vKnown("KF-C11-base-app-not-advertised", accept && id == 0) {
			break
		}
	}
	vAssert(len(c.written) == 1, "exactly one CEA is written")
	if len(c.written) != 1 {
		return
	}
	cea, err := diam.ReadMessage(&zzReader{b: c.written[0]}, dict.Default)
	vAssert(err == nil && cea != nil, "the CEA is a well-formed message")
	if err != nil {
		return
	}
	vAssert(cea.Header.CommandCode == diam.CapabilitiesExchange && cea.Header.CommandFlags&diam.RequestFlag == 0 && cea.Header.ApplicationID == 0, "answer to the capabilities exchange")
	vAssert(cea.Header.HopByHopID == m.Header.HopByHopID && cea.Header.EndToEndID == m.Header.EndToEndID, "CEA carries the request's hop-by-hop and end-to-end identifiers")
	vAssert(cea.Header.CommandFlags&diam.ProxiableFlag == m.Header.CommandFlags&diam.ProxiableFlag, "proxiable bit unchanged")
	rc, ok := zzU32AVP(cea, avp.ResultCode)
	vAssert(ok, "CEA carries a Result-Code")
	if vParam("ONLY_MIRROR", 0) == 1 {
		// C16 reuse: only the mirror properties of the answer
		vReach("C11_cer")
		return
	}
	vObserve("rc", uint64(rc))
	vObserve("closed", uint64(c.closed))
	vObserveBytes("cea", c.written[0])
	vAssert((rc == diam.Success) == accept, "success exactly when origin host and realm are named, no in-band security is required and a common application exists")
	// identity and addresses on every CEA
	ohA, e1 := cea.FindAVP(avp.OriginHost, 0)
	orA, e2 := cea.FindAVP(avp.OriginRealm, 0)
	vAssert(e1 == nil && e2 == nil && ohA.Data.(datatype.DiameterIdentity) == "srv.example" && orA.Data.(datatype.DiameterIdentity) == "example", "CEA carries the identity from the local settings")
	addrs, e3 := cea.FindAVPs(avp.HostIPAddress, 0)
	if withAddrs {
		vAssert(e3 == nil && len(addrs) == 2, "CEA carries the configured host addresses")
	} else {
		vAssert(e3 == nil && len(addrs) == 1, "CEA carries an address of the connection's local endpoint")
		if e3 == nil && len(addrs) == 1 {
			ab := addrs[0].Data.Serialize()
			vAssert(len(ab) == 6 && ab[2] == 192 && ab[3] == 0 && ab[4] == 2 && ab[5] == 77, "the local endpoint's address")
		}
	}
	if variant == 3 {
		// a second peer on another connection of the same state machine, with another local endpoint:
		// its CEA carries *its* connection's address (accepted or rejected CER alike)
		c2 := &zzConn{local: "192.0.2.88:3868"}
		st.ServeDIAM(c2, zzSecondCER(zzFlag("secondAccepted")))
		vAssert(len(c2.written) == 1, "the second peer is answered")
		if len(c2.written) == 1 {
			cea2, e2 := diam.ReadMessage(&zzReader{b: c2.written[0]}, dict.Default)
			vAssert(e2 == nil, "the second CEA is well-formed")
			if e2 == nil {
				a2, e3 := cea2.FindAVPs(avp.HostIPAddress, 0)
				vAssert(e3 == nil && len(a2) == 1, "one host address on the second CEA")
				if e3 == nil && len(a2) == 1 {
					ab := a2[0].Data.Serialize()
					vAssert(len(ab) == 6 && ab[2] == 192 && ab[3] == 0 && ab[4] == 2 && ab[5] == 88, "every CEA carries an address of its own connection's local endpoint when none is configured")
				}
			}
		}
	}
	meta, hasMeta := smpeer.FromContext(c.Context())
	if accept {
		vAssert(c.closed == 0, "connection stays open after a successful exchange")
		vAssert(hasMeta && meta.OriginHost == "peer.example" && meta.OriginRealm == "peers", "the peer's identity becomes the connection's metadata")
		if hasMeta {
			vAssert(len(meta.Applications) == len(shared), "the shared application ids become the connection's metadata")
			if len(meta.Applications) == len(shared) {
				// as a multiset (the parser groups them by kind; the statement fixes no order)
				for _, id := range shared {
					n1, n2 := 0, 0
					for _, x := range shared {
						if x == id {
							n1++
						}
					}
					for _, x := range meta.Applications {
						if x == id {
							n2++
						}
					}
					vAssert(n1 == n2, "the metadata holds exactly the shared application ids")
				}
			}
		}
		// a success CEA advertises at least the dictionary applications it shares with the peer
		for _, id := range shared {
			if id == 0xffffffff {
				continue
			}
			vAssert(zzAdvertises(cea, id), "success CEA advertises the shared dictionary applications")
		}
	} else {
		vAssert(c.closed >= 1, "connection is closed after a rejected CER")
		vAssert(!hasMeta, "no metadata without a successful exchange")
		switch rc {
		case diam.NoCommonSecurity:
			vAssert(noSecurity, "5017 only when in-band security is required")
		case diam.NoCommonApplication:
			vAssert(!common, "5010 only when no common application exists")
		case diam.UnableToComply:
			vAssert(!oh || !or || (!noSecurity && common) || true, "5012 otherwise")
		default:
			vAssert(false, "failure result code is 5010, 5017 or 5012")
		}
	}
	vReach("C11_cer")
}

// zzAdvertises: the CEA lists application id (top-level Auth/Acct or inside a vendor-specific group).
func zzAdvertises(cea *diam.Message, id uint32) bool {
	for _, a := range cea.AVP {
		switch a.Code {
		case avp.AuthApplicationID, avp.AcctApplicationID:
			if v, ok := a.Data.(datatype.Unsigned32); ok && uint32(v) == id {
				return true
			}
		case avp.VendorSpecificApplicationID:
			if g, ok := a.Data.(*diam.GroupedAVP); ok {
				for _, x := range g.AVP {
					if x.Code == avp.AuthApplicationID || x.Code == avp.AcctApplicationID {
						if v, ok := x.Data.(datatype.Unsigned32); ok && uint32(v) == id {
							return true
						}
					}
				}
			}
		}
	}
	return false
}

func zzSecondCER(acceptable bool) *diam.Message {
	m := diam.NewRequest(diam.CapabilitiesExchange, 0, dict.Default)
	m.NewAVP(avp.OriginHost, avp.Mbit, 0, datatype.DiameterIdentity("peer2.example"))
	m.NewAVP(avp.OriginRealm, avp.Mbit, 0, datatype.DiameterIdentity("peers"))
	m.NewAVP(avp.HostIPAddress, avp.Mbit, 0, datatype.Address([]byte{10, 0, 0, 2}))
	m.NewAVP(avp.VendorID, avp.Mbit, 0, datatype.Unsigned32(99))
	m.NewAVP(avp.ProductName, 0, 0, datatype.UTF8String("peer"))
	id := uint32(4)
	if !acceptable {
		id = 7777
	}
	m.NewAVP(avp.AuthApplicationID, avp.Mbit, 0, datatype.Unsigned32(id))
	return m
}

// zzAdvertisesKind: the CEA carries the id in an AVP of the given kind (top level or in a
// Vendor-Specific-Application-Id group).
func zzAdvertisesKind(cea *diam.Message, id uint32, acct bool) bool {
	code := uint32(avp.AuthApplicationID)
	if acct {
		code = avp.AcctApplicationID
	}
	match := func(a *diam.AVP) bool {
		v, ok := a.Data.(datatype.Unsigned32)
		return a.Code == code && ok && uint32(v) == id
	}
	for _, a := range cea.AVP {
		if match(a) {
			return true
		}
		if g, ok := a.Data.(*diam.GroupedAVP); ok && a.Code == avp.VendorSpecificApplicationID {
			for _, x := range g.AVP {
				if match(x) {
					return true
				}
			}
		}
	}
	return false
}

// zzC11_types: the local dictionary declares one application id under two types (loaded as two
// further dictionaries, in a case-split order); a CER sharing it as Auth, as Acct or as both is
// accepted and the success CEA advertises the id under every kind it shares.
func zzC11_types() {
	first := vChoice("loadedFirst", 2)
	for k := 0; k < 2; k++ {
		typ := [2]string{"auth", "acct"}[(first+k)%2]
		lerr := dict.Default.Load(vDictFile(&dict.File{App: []*dict.App{{ID: 1003, Type: typ, Name: "zz-" + typ}}}))
		vAssume(lerr == nil)
	}
	st := New(zzSettings(true))
	c := &zzConn{local: "192.0.2.77:3868"}
	m := diam.NewRequest(diam.CapabilitiesExchange, 0, dict.Default)
	zzIDs(m)
	m.NewAVP(avp.OriginHost, avp.Mbit, 0, datatype.DiameterIdentity("peer.example"))
	m.NewAVP(avp.OriginRealm, avp.Mbit, 0, datatype.DiameterIdentity("peers"))
	m.NewAVP(avp.HostIPAddress, avp.Mbit, 0, datatype.Address([]byte{10, 0, 0, 1}))
	m.NewAVP(avp.VendorID, avp.Mbit, 0, datatype.Unsigned32(99))
	m.NewAVP(avp.ProductName, 0, 0, datatype.UTF8String("peer"))
	kinds := 1 + vChoice("kinds", 3) // bit 0: Auth-Application-Id 1003, bit 1: Acct-Application-Id 1003
	if kinds&1 != 0 {
		m.NewAVP(avp.AuthApplicationID, avp.Mbit, 0, datatype.Unsigned32(1003))
	}
	if kinds&2 != 0 {
		m.NewAVP(avp.AcctApplicationID, avp.Mbit, 0, datatype.Unsigned32(1003))
	}
	st.ServeDIAM(c, m)
	cea := zzLastAnswer(c)
	vAssert(len(c.written) == 1 && cea != nil, "the CER is answered")
	if cea == nil {
		return
	}
	rc, _ := zzU32AVP(cea, avp.ResultCode)
	vAssert(rc == diam.Success && c.closed == 0, "a CER sharing an application (same id, same type) is accepted")
	if kinds&1 != 0 {
		vAssert(zzAdvertisesKind(cea, 1003, false), "success CEA advertises the shared auth application")
	}
	if kinds&2 != 0 {
		vAssert(zzAdvertisesKind(cea, 1003, true), "success CEA advertises the shared acct application")
	}
	vReach("C11_types")
}
