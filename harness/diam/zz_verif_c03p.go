package diam

// C03 (continued): the unexported display helpers that the message-level harness summarises, executed
// in isolation. White-box: if they are renamed this file is left out (noted, see checks.json).

// zzC03_pretty_helpers: the pure display helpers that the message-level harnesses summarise
// (boolToSymbol, appIdToString, flagsToString) executed in isolation on every input.
func zzC03_pretty_helpers() {
	vNoPanic()
	_ = boolToSymbol(vBool("flag"))
	_ = appIdToString(int(vU64("appid")))
	h := &Header{CommandFlags: vU8("flags")}
	a, b, c, d := flagsToString(h)
	vAssert(len(a) > 0 && len(b)+len(c)+len(d) >= 0, "flag strings")
	vReach("C03_pretty_helpers")
}
