package diam

import (
	"net"
	"time"

	"github.com/fiorix/go-diameter/v4/diam/datatype"
)

// C07: concurrent and retried writes deliver each message whole, exactly once.

// zzC07_retry: WriteToWithRetry / WriteToStreamWithRetry against a transport whose k-th call accepts
// a case-split number of bytes and reports nil / temporary / permanent; retries 0..R.
func zzC07_retry() {
	d := vAbstractDict()
	m := NewMessage(vU32("cmd")&0xffffff, vU8("flags"), vU32("app"), 7, 9, d)
	m.NewAVP(vU32("code"), 0x40, 0, datatype.Unsigned32(vU32("val")))
	want, serr := m.Serialize()
	vAssume(serr == nil)
	retries := vLen("retries", 0, vParam("R", 2))
	var fw *zzFaultyWriter
	var n int64
	var err error
	timeouts := zzFlag("errorsAreTimeouts")
	if zzFlag("multistream") {
		sw := &zzFaultyStreamWriter{}
		sw.timeouts = timeouts
		fw = &sw.zzFaultyWriter
		var nn int
		nn, err = m.WriteToStreamWithRetry(sw, 3, uint(retries))
		n = int64(nn)
		for _, s := range sw.streams {
			vAssert(s == 3, "every attempt goes to the requested stream")
		}
	} else {
		fw = &zzFaultyWriter{timeouts: timeouts}
		n, err = m.WriteToWithRetry(fw, uint(retries))
	}
	vObserve("calls", uint64(fw.calls))
	vObserve("n", uint64(n))
	vObserve("err", zzB2U(err != nil))
	vObserveBytes("accepted", fw.got)
	vAssert(fw.calls <= retries+1, "at most retries+1 transport calls")
	vAssert(!(fw.lastTemp && fw.calls <= retries), "a transient error is retried while the caller's retry budget lasts (whether or not it is also a timeout)")
	if err == nil {
		vAssert(int(n) == len(want), "on success the returned count is the message's length")
	}
	vAssert(fw.afterErr == 0, "nothing is sent after a permanent error")
	vAssert(len(fw.got) <= len(want), "never more than the message is sent")
	if len(fw.got) <= len(want) {
		for i := range fw.got {
			vAssert(fw.got[i] == want[i], "the bytes accepted so far are a prefix of the message: after a partial write only the remaining bytes are sent")
		}
	}
	if err == nil {
		vAssert(len(fw.got) == len(want), "success means the whole message reached the transport exactly once")
	}
	vReach("C07_retry")
}

// ---- lock discipline of response.Write ----

type zzAddr struct{}

func (zzAddr) Network() string { return "zz" }
func (zzAddr) String() string  { return "10.1.2.3:3868" }

// zzLockedConn is a recording transport (zz_verif_c07l.go adds the check that the connection's write
// lock is held inside Write).
type zzLockedConn struct {
	held     func() bool // nil, or: is the connection's write lock held right now
	got      []byte
	writes   int
	unlocked int
	closed   bool
}

func (c *zzLockedConn) Read(p []byte) (int, error) { return 0, &zzNetErr{} }
func (c *zzLockedConn) Write(p []byte) (int, error) {
	c.writes++
	if c.held != nil && !c.held() {
		c.unlocked++
	}
	c.got = append(c.got, p...)
	return len(p), nil
}
func (c *zzLockedConn) Close() error                       { c.closed = true; return nil }
func (c *zzLockedConn) LocalAddr() net.Addr                { return zzAddr{} }
func (c *zzLockedConn) RemoteAddr() net.Addr               { return zzAddr{} }
func (c *zzLockedConn) SetDeadline(t time.Time) error      { return nil }
func (c *zzLockedConn) SetReadDeadline(t time.Time) error  { return nil }
func (c *zzLockedConn) SetWriteDeadline(t time.Time) error { return nil }

// zzC07_locked: every path of response.Write / WriteStream: one write call delivers exactly one whole
// message to the transport, at once (sizes below / above / exactly at the 1 KiB serialisation pool and
// the connection's buffered writer). The lock-discipline half lives in zzC07_lockheld.
func zzC07_locked() {
	d := vAbstractDict()
	rw := &zzLockedConn{}
	srv := &Server{Dict: d}
	if zzFlag("writetimeout") {
		srv.WriteTimeout = time.Second
	}
	c, err := srv.newConn(rw)
	vAssume(err == nil)
	// payload sizes: small, above the serialisation pool, above the bufio buffer, and the serialised
	// message (28 + payload) landing just below / exactly on / just above each of the two buffer sizes
	pool, wbuf := MessageBufferLength, 4096 // (bufio's default size; zzC07_lockheld reads the real one)
	size := [9]int{8, 1100, wbuf + 104, pool - 32, pool - 28, pool - 24, wbuf - 32, wbuf - 28, wbuf - 24}[vChoice("size", vParam("SIZES", 9))]
	var all []byte
	for i := 0; i < vParam("MSGS", 2); i++ {
		m := NewMessage(257, 0x80, 0, uint32(i+1), 1, d)
		m.NewAVP(uint32(1), 0, 0, datatype.OctetString(vBytes("payload", size)))
		want, serr := m.Serialize()
		vAssume(serr == nil)
		before := len(rw.got)
		n, werr := m.WriteTo(c.writer)
		vAssert(werr == nil && int(n) == len(want), "write succeeds")
		vAssert(len(rw.got)-before == len(want), "one write call delivers exactly one whole message to the transport")
		all = append(all, want...)
	}
	zzBytesEq(rw.got, all, "messages reach the transport whole, in order, un-interleaved")
	vReach("C07_locked")
}

// zzStallConn is a transport that stalls (yields to the scheduler) in the middle of every write.
type zzStallConn struct {
	zzLockedConn
}

func (c *zzStallConn) Write(p []byte) (int, error) {
	c.writes++
	h := len(p) / 2
	c.got = append(c.got, p[:h]...)
	vYield()
	c.got = append(c.got, p[h:]...)
	return len(p), nil
}

// zzC07_concurrent: W writer goroutines x 2 messages each on one connection, transport stalling in
// mid-write, sync.Pool in LIFO mode; schedules explored up to the preemption bound. The recorded stream
// must parse into the messages written, each exactly once, each writer's messages in its own order.
func zzC07_concurrent() {
	d := vAbstractDict()
	zzKnownCommand(d, 0, 257)
	da, derr := d.FindAVPWithVendor(0, uint32(1), 0)
	vAssume(derr == nil && da.Data.Type == datatype.OctetStringType)
	rw := &zzStallConn{}
	srv := &Server{Dict: d}
	c, err := srv.newConn(rw)
	vAssume(err == nil)
	nw := vParam("W", 2)
	finished := 0
	for w := 0; w < nw; w++ {
		w := w
		// different sizes per writer, so that a serialisation buffer handed back too early and reused
		// by the other writer shows up as corrupted bytes
		go func() {
			for k := 0; k < 2; k++ {
				m := NewMessage(257, 0x80, 0, uint32(100*(w+1)+k), 1, d)
				m.NewAVP(uint32(1), 0, 0, datatypeOctets(4+8*w, byte(16*(w+1)+k)))
				m.WriteTo(c.writer)
			}
			finished++
		}()
	}
	vQuiesce()
	vAssert(finished == nw, "all writers finish")
	// parse the recorded stream
	r := zzNewReader(rw.got)
	seen := map[uint32]int{}
	lastOf := make([]int, nw)
	for i := 0; i < 2*nw; i++ {
		m, rerr := ReadMessage(r, d)
		vAssert(rerr == nil && m != nil, "the transport received whole, un-interleaved messages")
		if rerr != nil {
			return
		}
		id := m.Header.HopByHopID
		seen[id]++
		w, k := int(id/100)-1, int(id%100)
		vAssert(w >= 0 && w < nw && k < 2, "a message that was written")
		if w >= 0 && w < nw {
			vAssert(k >= lastOf[w], "each writer's messages appear in the order it wrote them")
			lastOf[w] = k
			pl := m.AVP[0].Data.Serialize()
			vAssert(len(pl) == 4+8*w, "payload size intact")
			for _, x := range pl {
				vAssert(x == byte(16*(w+1)+k), "payload bytes intact")
			}
		}
	}
	for _, n := range seen {
		vAssert(n == 1, "each message reaches the transport exactly once")
	}
	vAssert(r.off == len(rw.got), "nothing else was sent")
	vReach("C07_concurrent")
}

func datatypeOctets(n int, fill byte) datatype.OctetString {
	b := make([]byte, n)
	for i := range b {
		b[i] = fill
	}
	return datatype.OctetString(b)
}
