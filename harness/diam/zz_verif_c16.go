package diam

import (
	"github.com/fiorix/go-diameter/v4/diam/datatype"
)

// C16: answers mirror the request they answer.

type zzStreamWriter struct {
	zzRecWriter
	streams []uint
}

func (w *zzStreamWriter) WriteStream(b []byte, stream uint) (int, error) {
	w.streams = append(w.streams, stream)
	return w.zzRecWriter.Write(b)
}
func (w *zzStreamWriter) CurrentWriterStream() uint { return 0 }
func (w *zzStreamWriter) ResetWriterStream()        {}
func (w *zzStreamWriter) SetWriterStream(uint) uint { return 0 }

// zzC16_answer: request header fully symbolic (all 2^64 id pairs, zero included; every flag byte; any
// command / application), result code symbolic, inbound stream symbolic.
func zzC16_answer() {
	d := vAbstractDict()
	req := &Message{
		Header: &Header{
			Version:       1,
			MessageLength: 20,
			CommandFlags:  vU8("flags"),
			CommandCode:   vU32("cmd") & 0xffffff,
			ApplicationID: vU32("app"),
			HopByHopID:    vU32("hbh"),
			EndToEndID:    vU32("e2e"),
		},
		dictionary: d,
		stream:     uint(vU64("stream")),
	}
	vKnown("KF-C16-zero-ids-randomised", req.Header.HopByHopID == 0 || req.Header.EndToEndID == 0)
	rc := vU32("rc")
	a := req.Answer(rc)
	h, q := a.Header, req.Header
	vAssert(h.CommandCode == q.CommandCode && h.ApplicationID == q.ApplicationID, "answer has the request's command code and application id")
	vAssert(h.HopByHopID == q.HopByHopID && h.EndToEndID == q.EndToEndID, "answer has the request's hop-by-hop and end-to-end ids (zero included)")
	vAssert(h.CommandFlags&0x80 == 0, "request bit cleared")
	vAssert(h.CommandFlags&0x40 == q.CommandFlags&0x40, "proxiable bit unchanged")
	if rc != 0 {
		vAssert(len(a.AVP) == 1 && a.AVP[0].Code == 268 && a.AVP[0].Data.(datatype.Unsigned32) == datatype.Unsigned32(rc), "Result-Code AVP carries the result code")
		vAssert(a.AVP[0].VendorID == 0, "Result-Code AVP is the base one, not vendor-specific")
	}
	b, err := a.Serialize()
	vAssert(err == nil && int(h.MessageLength) == len(b), "answer length bookkeeping")
	vObserveBytes("answer", b)
	vAssert(a.MessageStream() == req.MessageStream(), "answer remembers the stream the request arrived on")
	// written to the transport stream the request arrived on
	w := &zzStreamWriter{}
	_, werr := a.WriteTo(w)
	vAssert(werr == nil && len(w.streams) == 1 && w.streams[0] == req.MessageStream(), "answer is written to the request's stream")
	vReach("C16_answer")
}

// zzC16_retry: the answer goes to the request's stream on every attempt, also when the transport
// reports temporary errors after accepting part of it and the caller asked for retries.
func zzC16_retry() {
	d := vAbstractDict()
	req := &Message{
		Header:     &Header{Version: 1, MessageLength: 20, CommandFlags: 0x80 | vU8("flags"), CommandCode: vU32("cmd") & 0xffffff, ApplicationID: vU32("app"), HopByHopID: vU32("hbh"), EndToEndID: vU32("e2e")},
		dictionary: d,
		stream:     uint(vU64("stream")),
	}
	vAssume(req.stream != zzNoStream)
	a := req.Answer(vU32("rc"))
	want, serr := a.Serialize()
	vAssume(serr == nil)
	retries := vLen("retries", 0, vParam("R", 2))
	sw := &zzFaultyStreamWriter{}
	var err error
	if zzFlag("explicitStream") {
		_, err = a.WriteToStreamWithRetry(sw, a.MessageStream(), uint(retries))
	} else {
		_, err = a.WriteToWithRetry(sw, uint(retries))
	}
	vAssert(len(sw.streams) >= 1, "the answer is written")
	for _, s := range sw.streams {
		vAssert(s == req.stream, "every attempt, retries included, goes to the stream the request arrived on")
	}
	if err == nil {
		zzBytesEq(sw.got, want, "the whole answer reached that stream")
	}
	vReach("C16_retry")
}
