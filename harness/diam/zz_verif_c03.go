package diam

import (
	"github.com/fiorix/go-diameter/v4/diam/datatype"
)

// C03: decoding arbitrary bytes never panics / over-allocates.

// zzC03_header: every byte string of length 0..24 offered to DecodeHeader.
func zzC03_header() {
	n := vLen("n", 0, vParam("HN", 24))
	b := vBytes("b", n)
	vNoPanic()
	h, err := DecodeHeader(b)
	if err == nil {
		_ = h.String()
		s := h.Serialize()
		vAssert(len(s) == 20, "header re-serialises to 20 bytes")
	} else {
		vAssert(n < 20, "only short input is rejected")
	}
	vReach("C03_header")
}

// zzC03_avp: every byte string of length 0..N offered to DecodeAVP, for every dictionary answer.
func zzC03_avp() {
	n := vLen("n", 0, vParam("N", 20))
	b := vBytes("b", n)
	app := vU32("app")
	d := vAbstractDict()
	vNoPanic()
	if n >= 8 {
		// KF-C03-vflag: V flag set with declared Length 8..11
		l := int(b[5])<<16 | int(b[6])<<8 | int(b[7])
		vKnown("KF-C03-vflag-short", b[4]&0x80 != 0 && l >= 8 && l < 12 && l <= n)
	}
	a, err := DecodeAVP(b, app, d)
	if err == nil {
		zzInspectAVP(a)
	}
	vReach("C03_avp")
}

// zzInspectAVP exercises every later inspection of a decoded AVP.
func zzInspectAVP(a *AVP) {
	_ = a.String()
	l := a.Len()
	vAssert(l >= 8, "decoded AVP has at least a header")
	out, e2 := a.Serialize()
	vAssert(e2 != nil || len(out) == l, "Serialize size equals Len")
	if g, ok := a.Data.(*GroupedAVP); ok {
		for _, c := range g.AVP {
			zzInspectAVP(c)
		}
	}
	_ = a.Data.Type()
	_ = datatype.UnknownType
}
