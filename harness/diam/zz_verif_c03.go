package diam

import (
	"github.com/fiorix/go-diameter/v4/diam/datatype"
)

// C03: decoding arbitrary bytes never panics / over-allocates.

// zzC03_header: every byte string of length 0..24 offered to DecodeHeader.
func zzC03_header() {
	n := vLen("n", 0, vParam("HN", 24))
	b := vBytes("b", n)
	vNoPanic()
	h, err := DecodeHeader(b)
	if err == nil {
		_ = h.String()
		s := h.Serialize()
		vAssert(len(s) == 20, "header re-serialises to 20 bytes")
	}
	vReach("C03_header")
}

// zzC03_avp: every byte string of length 0..N offered to DecodeAVP, for every dictionary answer.
func zzC03_avp() {
	n := vLen("n", 0, vParam("N", 20))
	b := vBytes("b", n)
	app := vU32("app")
	d := vAbstractDict()
	vNoPanic()
	if n >= 8 {
		// KF-C03-vflag: V flag set with declared Length 8..11
		l := int(b[5])<<16 | int(b[6])<<8 | int(b[7])
		vKnown("KF-C03-vflag-short", b[4]&0x80 != 0 && l >= 8 && l < 12 && l <= n)
	}
	a, err := DecodeAVP(b, app, d)
	vObserve("decoded", zzB2U(err == nil))
	if err == nil {
		vObserve("Len", uint64(a.Len()))
		vObserve("type", uint64(a.Data.Type()))
		zzInspectAVP(a)
	}
	vReach("C03_avp")
}

// zzInspectAVP exercises every later inspection of a decoded AVP.
func zzInspectAVP(a *AVP) {
	_ = a.String()
	l := a.Len()
	vAssert(l >= 8, "decoded AVP has at least a header")
	out, e2 := a.Serialize()
	vAssert(e2 != nil || len(out) == l, "Serialize size equals Len")
	if g, ok := a.Data.(*GroupedAVP); ok {
		for _, c := range g.AVP {
			zzInspectAVP(c)
		}
	}
	_ = a.Data.Type()
	_ = datatype.UnknownType
}

// zzC03_msg: every complete message (declared length == bytes supplied) of 20..20+N bytes offered to
// ReadMessage under every dictionary answer, then one of the inspections.
func zzC03_msg() {
	body := vLen("body", 0, vParam("N", 12))
	n := 20 + body
	b := vBytes("b", n)
	d := vAbstractDict()
	vNoPanic()
	ml := int(b[1])<<16 | int(b[2])<<8 | int(b[3])
	vAssume(ml == n)
	vAllocLimit(64*n + 4096 + 2*MessageBufferLength)
	m, err := ReadMessage(zzNewReader(b), d)
	vObserve("read", zzB2U(err == nil))
	if err == nil {
		vObserve("navps", uint64(len(m.AVP)))
		vObserve("Len", uint64(m.Len()))
		zzInspectMessage(m)
	}
	vReach("C03_msg")
}

// zzC03_trunc: every stream of 0..20+N bytes whose declared length differs from the bytes supplied
// (truncated at every offset, declared length 0..19, trailing bytes).
func zzC03_trunc() {
	nmax := vParam("N", 12) + 20
	n := vLen("n", 0, nmax)
	b := vBytes("b", n)
	d := vAbstractDict()
	vNoPanic()
	if n >= 20 {
		ml := int(b[1])<<16 | int(b[2])<<8 | int(b[3])
		vAssume(ml != n)
		// longer declared lengths are the subject of zzC03_alloc
		vAssume(ml <= nmax)
		vKnown("KF-C03-msglen-underflow", ml < 20)
	}
	vAllocLimit(64*n + 4096 + 2*MessageBufferLength)
	r := zzNewReader(b)
	m, err := ReadMessage(r, d)
	if err == nil {
		vAssert(n >= 20 && r.off == int(m.Header.MessageLength), "consumed exactly the declared length")
		_ = m.String()
	}
	vReach("C03_trunc")
}

func zzInspectMessage(m *Message) {
	// one kind of inspection per path (sum, not product, of their branchings)
	switch vChoice("inspect", 4) {
	case 0:
		_ = m.String()
		out, err := m.Serialize()
		vAssert(err != nil || len(out) == m.Len(), "Serialize size equals Len")
		// re-serialisation through the writer path (what a relay or an echoing handler does)
		_, _ = m.WriteTo(&zzRecWriter{})
	case 1:
		_ = m.PrettyDump()
	case 2:
		for _, a := range m.AVP {
			zzInspectAVP(a)
		}
	case 3:
		code := vU32("findcode")
		_, _ = m.FindAVP(code, 0)
		_, _ = m.FindAVPs(code, 0)
		_, _ = m.FindAVPsWithPath([]interface{}{code, vU32("findcode2")}, 0)
	}
}

// zzC03_alloc: memory is bounded by the bytes supplied, not by the length the header claims.
// A complete 20-byte header with an arbitrary 24-bit declared length followed by k <= 8 body bytes.
func zzC03_alloc() {
	k := vLen("k", 0, vParam("K", 4))
	b := vBytes("b", 20+k)
	d := vAbstractDict()
	vNoPanic()
	ml := int(b[1])<<16 | int(b[2])<<8 | int(b[3])
	limit := 64*(20+k) + 4096 + 2*MessageBufferLength
	// declared lengths in (20+k, limit] allocate no more than the property tolerates and behave like
	// the truncated-message case of zzC03_msg; they are not enumerated here
	vAssume(ml <= 20+k || ml > limit)
	vKnown("KF-C03-msglen-underflow", ml < 20)
	vKnown("KF-C03-claimed-alloc", ml > limit)
	vAllocLimit(limit)
	m, err := ReadMessage(zzNewReader(b), d)
	vAllocCheck()
	if err == nil {
		vAssert(m != nil, "message returned")
	}
	vReach("C03_alloc")
}

// zzC03_midlen: the declared lengths zzC03_alloc leaves out: a complete header declaring ml in
// (20+k, limit], followed by only k body bytes. Every such ml is enumerated (it decides which read
// buffer is used: pooled up to MessageBufferLength, allocated above); the other header bytes are symbolic.
func zzC03_midlen() {
	k := vLen("k", 0, vParam("K", 1))
	limit := 64*(20+k) + 4096 + 2*MessageBufferLength
	ml := vLen("ml", 20+k+1, limit)
	b := vBytes("b", 20+k)
	b[1], b[2], b[3] = byte(ml>>16), byte(ml>>8), byte(ml)
	d := vAbstractDict()
	vNoPanic()
	// (here the claimed length is itself within the tolerated bound, so the read buffer may take up to
	// `limit` bytes on top of the pooled buffers)
	vAllocLimit(2 * limit)
	m, err := ReadMessage(zzNewReader(b), d)
	vAllocCheck()
	vAssert(m == nil && err != nil, "a message cut short is an error, never a message")
	vReach("C03_midlen")
}

// ---- struct unmarshalling of decoded arbitrary messages ----

type zzU1 struct {
	VendorID  uint32 `avp:"N5"`
	AuthAppID int64  `avp:"N6"`
}

// zzU0 has one field of every shape reflect.go distinguishes; the AVP names are abstract: the
// dictionary's answer for each name (defined or not, code, vendor id, data type) is symbolic.
type zzU0 struct {
	Str     string               `avp:"N1"`
	Num     uint32               `avp:"N2"`
	Ptr     *AVP                 `avp:"N3"`
	List    []*AVP               `avp:"N4"`
	Group   zzU1                 `avp:"N7"`
	GroupP  *zzU1                `avp:"N8"`
	Nums    []uint32             `avp:"N2"`
	Octets  datatype.OctetString `avp:"N1"`
	Copy    AVP                  `avp:"N3"`
	Ignored int
}

// zzC03_unmarshal: a message decoded from K symbolic AVP slots (as in C04), then Message.Unmarshal into
// zzU0: whatever the bytes and whatever the dictionary says, it returns without panicking.
func zzC03_unmarshal() {
	k := vLen("k", 1, vParam("UK", 1))
	sizes := make([]int, k)
	total := 0
	for i := range sizes {
		sizes[i] = 4 * vLen("p4", 2, vParam("UP", 16)/4)
		total += sizes[i]
	}
	body := vBytes("body", total)
	app := vU32("app")
	d := vAbstractDict()
	zzFrameFixed(body, sizes)
	zzKnownCommand(d, app, 257)
	m, err := ReadMessage(zzNewReader(zzMessageBytes(body, 0x80, 257, app)), d)
	vAssume(err == nil)
	var dst zzU0
	uerr := m.Unmarshal(&dst)
	vObserve("unmarshal.err", zzB2U(uerr != nil))
	vObserve("dst.Num", uint64(dst.Num))
	vObserveBytes("dst.Str", []byte(dst.Str))
	vObserve("dst.Ptr", zzB2U(dst.Ptr != nil))
	vObserve("dst.List", uint64(len(dst.List)))
	vObserve("dst.Nums", uint64(len(dst.Nums)))
	vAssert(dst.Ignored == 0, "untagged field untouched")
	vReach("C03_unmarshal")
}

// zzC03_nested: grouped AVPs nested as deep as the size allows: a chain of D group headers (code and
// flags symbolic, one variable each) around an empty innermost group. Memory must stay within a
// small multiple of the bytes supplied (not grow with depth x size), and every inspection works.
func zzC03_nested() {
	depth := vParam("D", 200)
	code := vU32("code")
	flags := vU8("flags") & 0x7f // no vendor id: 8-byte headers
	app := vU32("app")
	d := vAbstractDict()
	da, derr := d.FindAVPWithVendor(app, code, 0)
	vAssume(derr == nil && da.Data.Type == datatype.GroupedType)
	zzKnownCommand(d, app, 257)
	body := make([]byte, 8*depth)
	for i := 0; i < depth; i++ {
		o := 8 * i
		l := 8 * (depth - i)
		body[o], body[o+1], body[o+2], body[o+3] = byte(code>>24), byte(code>>16), byte(code>>8), byte(code)
		body[o+4] = flags
		body[o+5], body[o+6], body[o+7] = byte(l>>16), byte(l>>8), byte(l)
	}
	wire := zzMessageBytes(body, 0x80, 257, app)
	vAllocLimit(64*len(wire) + 4096 + 2*MessageBufferLength)
	m, err := ReadMessage(zzNewReader(wire), d)
	vAllocCheck()
	vAssert(vAllocBytes() <= 64*len(wire)+4096+2*MessageBufferLength || !vSymbolic(), "memory stays within a small multiple of the bytes supplied however deep the groups nest")
	// (a decoder may refuse to descend beyond some depth: an error is as good as a value here)
	if err == nil {
		vAssert(len(m.AVP) == 1, "the nested chain decodes to one top-level AVP")
		n := 0
		a := m.AVP[0]
		for {
			n++
			g, ok := a.Data.(*GroupedAVP)
			if !ok || len(g.AVP) == 0 {
				break
			}
			a = g.AVP[0]
		}
		vAssert(n == depth, "every level is reported")
		out, serr := m.Serialize()
		vAssert(serr == nil, "and the message serialises")
		zzBytesEq(out, wire, "to the same bytes")
	}
	vReach("C03_nested")
}
