package diam

import (
	"io"
)

// zzReader is a plain in-memory reader (like bytes.Reader, without the extra interfaces).
type zzReader struct {
	b   []byte
	off int
	// reads counts Read calls
	reads int
}

func zzNewReader(b []byte) *zzReader { return &zzReader{b: b} }

func (r *zzReader) Read(p []byte) (int, error) {
	r.reads++
	if r.off >= len(r.b) {
		return 0, io.EOF
	}
	n := copy(p, r.b[r.off:])
	r.off += n
	return n, nil
}

// zzPlainMessage is a 20-byte message (no AVPs) with the given command, flags and hop-by-hop id.
func zzPlainMessage(cmd uint32, flags uint8, app, hbh uint32) []byte {
	b := zzMessageBytes(nil, flags, cmd, app)
	b[12], b[13], b[14], b[15] = byte(hbh>>24), byte(hbh>>16), byte(hbh>>8), byte(hbh)
	return b
}

func zzB2U(b bool) uint64 {
	if b {
		return 1
	}
	return 0
}
