package diam

import (
	"io"
	"net"

	"github.com/fiorix/go-diameter/v4/diam/datatype"
	"github.com/fiorix/go-diameter/v4/diam/dict"
)

// zzReader is a plain in-memory reader (like bytes.Reader, without the extra interfaces).
type zzReader struct {
	b   []byte
	off int
	// reads counts Read calls
	reads int
}

func zzNewReader(b []byte) *zzReader { return &zzReader{b: b} }

func (r *zzReader) Read(p []byte) (int, error) {
	r.reads++
	if r.off >= len(r.b) {
		return 0, io.EOF
	}
	n := copy(p, r.b[r.off:])
	r.off += n
	return n, nil
}

// zzPlainMessage is a 20-byte message (no AVPs) with the given command, flags and hop-by-hop id.
func zzPlainMessage(cmd uint32, flags uint8, app, hbh uint32) []byte {
	b := zzMessageBytes(nil, flags, cmd, app)
	b[12], b[13], b[14], b[15] = byte(hbh>>24), byte(hbh>>16), byte(hbh>>8), byte(hbh)
	return b
}

func zzB2U(b bool) uint64 {
	if b {
		return 1
	}
	return 0
}

// zzLegalLen is the reference "payload length legal for the type" predicate (DESIGN B.2),
// for the fixed-width types; other types accept any length here.
func zzLegalLen(ty datatype.TypeID, n int) bool {
	switch ty {
	case datatype.Unsigned32Type, datatype.Integer32Type, datatype.EnumeratedType, datatype.Float32Type, datatype.TimeType, datatype.IPv4Type:
		return n == 4
	case datatype.Unsigned64Type, datatype.Integer64Type, datatype.Float64Type:
		return n == 8
	case datatype.IPv6Type:
		return n == 16
	}
	return true
}

// zzFrameFixed places k AVP images of padded sizes p[i] (case-split) in a symbolic body and assumes
// only that each declared Length is consistent with its slot: hdr <= L <= p and pad4(L) == p.
// Everything else (codes, flags, vendor ids, payload bytes, the exact L) stays symbolic.
func zzFrameFixed(body []byte, sizes []int) []zzRec {
	recs := make([]zzRec, len(sizes))
	off := 0
	for i, p := range sizes {
		b := body[off : off+p]
		l := int(b[5])<<16 | int(b[6])<<8 | int(b[7])
		hdr := 8
		var vendor uint32
		if b[4]&0x80 != 0 {
			hdr = 12
		}
		vAssume(l >= hdr && l <= p && l > p-4)
		if hdr == 12 {
			vendor = zzBE32(b[8:12])
		}
		recs[i] = zzRec{off: off, hdr: hdr, l: l, code: zzBE32(b[0:4]), flags: b[4], vendor: vendor}
		off += p
	}
	return recs
}

func zzMessageBytes(body []byte, flags uint8, cmd, app uint32) []byte {
	n := 20 + len(body)
	b := make([]byte, n)
	b[0] = 1
	b[1], b[2], b[3] = byte(n>>16), byte(n>>8), byte(n)
	b[4] = flags
	b[5], b[6], b[7] = byte(cmd>>16), byte(cmd>>8), byte(cmd)
	b[8], b[9], b[10], b[11] = byte(app>>24), byte(app>>16), byte(app>>8), byte(app)
	copy(b[20:], body)
	return b
}

// zzKnownCommand fixes the dictionary's answer for the message's command: defined, with rules.
// (Unknown commands and rule-less commands are rejected before any AVP is looked at: C03.)
func zzKnownCommand(d *dict.Parser, app, cmd uint32) {
	c, err := d.FindCommand(app, cmd)
	vAssume(err == nil && len(c.Request.Rule) > 0)
}

func zzBE32(b []byte) uint32 {
	return uint32(b[0])<<24 | uint32(b[1])<<16 | uint32(b[2])<<8 | uint32(b[3])
}

func zzFlag(tag string) bool { return vChoice(tag, 2) == 1 }

func zzBytesEq(a, b []byte, label string) {
	vAssert(len(a) == len(b), label+" (length)")
	if len(a) == len(b) {
		for i := range a {
			vAssert(a[i] == b[i], label)
		}
	}
}

type zzRecWriter struct {
	got   []byte
	calls int
}

func (w *zzRecWriter) Write(p []byte) (int, error) {
	w.calls++
	w.got = append(w.got, p...)
	return len(p), nil
}

type zzAccept struct {
	c   net.Conn
	err error
}

// zzTempErr is a transient accept failure: temporary, and either a timeout or not (EMFILE / ENFILE /
// EINTR are temporary without being timeouts)
type zzTempErr struct{ timeout bool }

func (e zzTempErr) Timeout() bool { return e.timeout }

type zzListener struct {
	ch      chan zzAccept
	accepts int
	closed  bool
}

func (l *zzListener) Accept() (net.Conn, error) {
	l.accepts++
	a := <-l.ch
	return a.c, a.err
}

func (l *zzListener) Close() error { l.closed = true; return nil }

func (l *zzListener) Addr() net.Addr { return zzNamedAddr{"192.0.2.10:3868"} }

// zzNetErr: a net.Error that is temporary or permanent and, independently, a timeout or not
// (EAGAIN / EINTR / ENOBUFS are temporary without being timeouts; an expired deadline is both)
type zzNetErr struct{ temp, timeout bool }

func (e *zzNetErr) Error() string { return "zz transport error" }

func (e *zzNetErr) Timeout() bool { return e.timeout }

func (e *zzNetErr) Temporary() bool { return e.temp }

// zzFaultyWriter accepts a case-split part of each write and reports a case-split outcome.
type zzFaultyWriter struct {
	got      []byte
	calls    int
	sum      int
	dead     bool // a permanent error was reported
	afterErr int  // writes attempted after a permanent error
	streams  []uint
	lastTemp bool // the most recent call reported a temporary error
	timeouts bool // errors of this transport also report Timeout() (case-split once per path)
}

func (w *zzFaultyWriter) Write(p []byte) (int, error) {
	w.calls++
	if w.dead {
		w.afterErr++
	}
	// bytes accepted: 0, 1, half, all but one, all
	var wn int
	switch vChoice("accepted", 5) {
	case 0:
		wn = 0
	case 1:
		wn = 1
	case 2:
		wn = len(p) / 2
	case 3:
		wn = len(p) - 1
	case 4:
		wn = len(p)
	}
	if wn > len(p) {
		wn = len(p)
	}
	if wn < 0 {
		wn = 0
	}
	w.got = append(w.got, p[:wn]...)
	w.sum += wn
	outcome := vChoice("outcome", 3) // 0 nil, 1 temporary, 2 permanent
	w.lastTemp = outcome == 1
	if outcome == 0 {
		// io.Writer contract: a short write reports an error
		vAssume(wn == len(p))
		return wn, nil
	}
	if outcome == 2 {
		w.dead = true
		return wn, &zzNetErr{temp: false, timeout: w.timeouts}
	}
	return wn, &zzNetErr{temp: true, timeout: w.timeouts}
}

type zzFaultyStreamWriter struct{ zzFaultyWriter }

func (w *zzFaultyStreamWriter) WriteStream(p []byte, stream uint) (int, error) {
	w.streams = append(w.streams, stream)
	return w.zzFaultyWriter.Write(p)
}

// Write is the stream-unaware io.Writer adaptor of a multi-stream connection: the bytes go to
// whatever stream the connection currently defaults to, recorded as zzNoStream.
func (w *zzFaultyStreamWriter) Write(p []byte) (int, error) {
	w.streams = append(w.streams, zzNoStream)
	return w.zzFaultyWriter.Write(p)
}

const zzNoStream = ^uint(0)

func (w *zzFaultyStreamWriter) CurrentWriterStream() uint { return 0 }

func (w *zzFaultyStreamWriter) ResetWriterStream() {}

func (w *zzFaultyStreamWriter) SetWriterStream(uint) uint { return 0 }

func zzRefBE32(x uint32) []byte { return []byte{byte(x >> 24), byte(x >> 16), byte(x >> 8), byte(x)} }

func zzRefBE64(x uint64) []byte {
	return []byte{byte(x >> 56), byte(x >> 48), byte(x >> 40), byte(x >> 32), byte(x >> 24), byte(x >> 16), byte(x >> 8), byte(x)}
}

// zzRefAVP is the reference AVP encoder (RFC 6733 section 4.1).
func zzRefAVP(code uint32, flags uint8, vendor uint32, payload []byte) []byte {
	hdr := 8
	if flags&0x80 != 0 {
		hdr = 12
	}
	l := hdr + len(payload)
	out := make([]byte, (l+3)&^3)
	out[0], out[1], out[2], out[3] = byte(code>>24), byte(code>>16), byte(code>>8), byte(code)
	out[4] = flags
	out[5], out[6], out[7] = byte(l>>16), byte(l>>8), byte(l)
	if hdr == 12 {
		out[8], out[9], out[10], out[11] = byte(vendor>>24), byte(vendor>>16), byte(vendor>>8), byte(vendor)
	}
	copy(out[hdr:], payload)
	return out
}

func zzRefHeader(ver uint8, l uint32, fl uint8, cmd, app, hbh, e2e uint32) [20]byte {
	var r [20]byte
	r[0] = ver
	r[1], r[2], r[3] = byte(l>>16), byte(l>>8), byte(l)
	r[4] = fl
	r[5], r[6], r[7] = byte(cmd>>16), byte(cmd>>8), byte(cmd)
	for i, v := range [4]uint32{app, hbh, e2e} {
		_ = i
		_ = v
	}
	r[8], r[9], r[10], r[11] = byte(app>>24), byte(app>>16), byte(app>>8), byte(app)
	r[12], r[13], r[14], r[15] = byte(hbh>>24), byte(hbh>>16), byte(hbh>>8), byte(hbh)
	r[16], r[17], r[18], r[19] = byte(e2e>>24), byte(e2e>>16), byte(e2e>>8), byte(e2e)
	return r
}

type zzRec struct {
	off, hdr, l int
	code        uint32
	flags       uint8
	vendor      uint32
}

func (zzTempErr) Error() string   { return "zz: temporary accept error" }
func (zzTempErr) Temporary() bool { return true }
