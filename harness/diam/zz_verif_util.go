package diam

import (
	"io"
)

// zzReader is a plain in-memory reader (like bytes.Reader, without the extra interfaces).
type zzReader struct {
	b   []byte
	off int
	// reads counts Read calls
	reads int
}

func zzNewReader(b []byte) *zzReader { return &zzReader{b: b} }

func (r *zzReader) Read(p []byte) (int, error) {
	r.reads++
	if r.off >= len(r.b) {
		return 0, io.EOF
	}
	n := copy(p, r.b[r.off:])
	r.off += n
	return n, nil
}
