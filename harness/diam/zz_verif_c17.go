package diam

import (
	"github.com/fiorix/go-diameter/v4/diam/datatype"
	"github.com/fiorix/go-diameter/v4/diam/dict"
)

// C17: dictionary lookups resolve through the application, its parents, then base.

// zzC17_embedded_smoke: the embedded dictionaries load and resolve a few well-known keys.
func zzC17_embedded_smoke() {
	a, err := dict.Default.FindAVPWithVendor(0, uint32(264), dict.UndefinedVendorID)
	vAssert(err == nil && a.Name == "Origin-Host" && a.Data.Type == datatype.DiameterIdentityType, "Origin-Host resolves in the base application")
	b, err := dict.Default.FindAVPWithVendor(4, "Origin-Host", dict.UndefinedVendorID)
	vAssert(err == nil && b == a, "credit-control falls back to its parent chain / base")
	c, err := dict.Default.FindCommand(16777251, 257)
	vAssert(err == nil && c.Short == "CE", "commands fall back to base")
	vReach("C17_embedded_smoke")
}

// zzC17_types: every data type name a dictionary may declare can be both encoded and decoded.
func zzC17_types() {
	n := 0
	for name, id := range datatype.Available {
		_ = name
		var payload []byte
		switch id {
		case datatype.Unsigned32Type, datatype.Integer32Type, datatype.EnumeratedType, datatype.Float32Type, datatype.TimeType, datatype.IPv4Type:
			payload = vBytes("p4", 4)
		case datatype.Unsigned64Type, datatype.Integer64Type, datatype.Float64Type:
			payload = vBytes("p8", 8)
		case datatype.IPv6Type:
			payload = vBytes("p16", 16)
		case datatype.AddressType:
			payload = append([]byte{0, 1}, vBytes("a4", 4)...)
		default:
			payload = vBytes("pn", 5)
		}
		v, err := datatype.Decode(id, payload)
		vAssert(err == nil && v != nil, "every type name the parser accepts has a decoder")
		if err == nil {
			out := v.Serialize()
			zzBytesEq(out, payload, "decoded legal payload re-encodes to the same bytes")
			vAssert(v.Type() == id, "decoded value reports its type id")
		}
		n++
	}
	vAssert(n >= 1, "the parser accepts at least one type name")
	vReach("C17_types")
}

// ---- symbolic dictionary files ----

var zzNames = [3]string{"A", "B", "C"}

// zzMkApp builds one application with up to NA AVPs and NC commands; every numeric attribute symbolic.
func zzMkApp(id uint32, typ string, na, nc int) *dict.App {
	app := &dict.App{ID: id, Type: typ, Name: "app"}
	for i := 0; i < na; i++ {
		a := &dict.AVP{Name: zzNames[vChoice("name", 3)], Code: vU32("avpcode"), VendorID: vU32("avpvendor")}
		a.Data.TypeName = [3]string{"Unsigned32", "OctetString", "Grouped"}[vChoice("type", 3)]
		app.AVP = append(app.AVP, a)
	}
	for i := 0; i < nc; i++ {
		c := &dict.Command{Code: vU32("cmdcode") & 0xffffff, Name: "Cmd", Short: "C" + zzNames[vChoice("cmdname", 3)]}
		app.Command = append(app.Command, c)
	}
	return app
}

type zzDef struct {
	app, code, vendor uint32
	name              string
	avp               *dict.AVP
}

// zzParents is the static parent map of the statement (application -> parent), independent copy.
func zzParent(app uint32) (uint32, bool) {
	switch app {
	case 16777251, 16777238:
		return 4, true
	case 4:
		return 1, true
	}
	return 0, false
}

// zzRefFind is the reference resolver (DESIGN B.7) over the definitions in load order.
func zzRefFind(defs []zzDef, app uint32, code uint32, name string, byName bool, vendor uint32) *zzDef {
	a := app
	for step := 0; step < 5; step++ {
		var found *zzDef
		for i := range defs {
			d := &defs[i]
			if d.app != a {
				continue
			}
			if byName {
				if d.name != name {
					continue
				}
			} else if d.code != code {
				continue
			}
			if vendor == dict.UndefinedVendorID || d.vendor == vendor {
				found = d // last definition wins
			}
		}
		if found != nil {
			return found
		}
		if a == 0 {
			return nil
		}
		if p, ok := zzParent(a); ok {
			a = p
		} else {
			a = 0
		}
	}
	return nil
}

// zzSameDef compares a resolved definition with the reference one by content and owning application
// (the loader may copy definitions; identity is not part of the statement).
func zzSameDef(got *dict.AVP, want *zzDef) bool {
	if got == nil || want == nil {
		return got == nil && want == nil
	}
	return got.Code == want.code && got.VendorID == want.vendor && got.Name == want.name && got.Data.TypeName == want.avp.Data.TypeName &&
		got.App != nil && got.App.ID == want.app
}

// zzSymName is a one-letter name from {A, B} chosen by the solver (no case split).
func zzSymName(tag string) string {
	return string([]byte{byte(vPick32(tag, 'A', 'B'))})
}

// zzC17_load: up to D AVP definitions (application id from {0,1,4,16777251,77}, one-letter name, 32-bit
// code and vendor id: all symbolic) spread over files loaded in order through the real Parser.Load;
// after every load a symbolic (application, code | name, vendor | wildcard) query is compared with the
// reference resolver; monotonicity across loads.
func zzC17_load() {
	p, err := dict.NewParser()
	vAssume(err == nil)
	var defs []zzDef
	nd := vLen("defs", 1, vParam("D", 3))
	qApp := vPick32("qapp", 0, 1, 4, 16777251, 77)
	qCode, qVendor := vU32("qcode"), vU32("qvendor")
	qName := zzSymName("qname")
	if zzFlag("wildcard") {
		qVendor = dict.UndefinedVendorID
	} else {
		vAssume(qVendor != dict.UndefinedVendorID)
	}
	var prevByCode, prevByName bool
	file := &dict.File{}
	for i := 0; i < nd; i++ {
		id := vPick32("appid", 0, 1, 4, 16777251, 77)
		a := &dict.AVP{Name: zzSymName("name"), Code: vU32("avpcode"), VendorID: vU32("avpvendor")}
		a.Data.TypeName = [2]string{"Unsigned32", "Grouped"}[vChoice("type", 2)]
		// a definition with the any-vendor id as its own vendor is outside the claim
		vAssume(a.VendorID != dict.UndefinedVendorID)
		file.App = append(file.App, &dict.App{ID: id, Name: "app", AVP: []*dict.AVP{a}})
		defs = append(defs, zzDef{app: id, code: a.Code, vendor: a.VendorID, name: a.Name, avp: a})
		if i < nd-1 && !zzFlag("newfile") {
			continue
		}
		lerr := p.Load(vDictFile(file))
		vAssert(lerr == nil, "a dictionary whose type names are all available loads")
		nloaded := len(file.App)
		file = &dict.File{}
		// by code
		got, gerr := p.FindAVPWithVendor(qApp, qCode, qVendor)
		want := zzRefFind(defs, qApp, qCode, "", false, qVendor)
		vObserve("bycode.found", zzB2U(gerr == nil))
		if got != nil {
			vObserve("bycode.vendor", uint64(got.VendorID))
			if gerr == nil {
				// (the placeholder's name is built by fmt.Sprintf, which the engine stubs)
				vObserveBytes("bycode.name", []byte(got.Name))
			}
		}
		if want != nil {
			vAssert(gerr == nil && got != nil, "lookup by code resolves when the application, a parent or base defines the code")
			vAssert(zzSameDef(got, want), "lookup by code yields the definition of the application, else its parents, else base; exact vendor or wildcard; latest wins")
		} else {
			vAssert(gerr != nil && got != nil && got.Code == qCode && got.Data.Type == datatype.UnknownType, "an undefined numeric code yields an opaque placeholder and an error")
		}
		if prevByCode {
			vAssert(gerr == nil, "loading a further dictionary never makes a resolvable AVP unresolvable (by code)")
		}
		prevByCode = gerr == nil
		// by name
		gotn, nerr := p.FindAVPWithVendor(qApp, qName, qVendor)
		vObserve("byname.found", zzB2U(nerr == nil))
		if gotn != nil {
			vObserve("byname.code", uint64(gotn.Code))
		}
		wantn := zzRefFind(defs, qApp, 0, qName, true, qVendor)
		if wantn != nil {
			vAssert(nerr == nil && gotn != nil, "lookup by name resolves when the application, a parent or base defines the name")
			vAssert(zzSameDef(gotn, wantn), "lookup by name yields the same resolution order")
		} else {
			vAssert(nerr != nil && gotn == nil, "an undefined name is an error")
		}
		if prevByName {
			vAssert(nerr == nil, "loading a further dictionary never makes a resolvable AVP unresolvable (by name)")
		}
		prevByName = nerr == nil
		// applications stay resolvable
		for j := len(defs) - nloaded; j < len(defs); j++ {
			ra, aerr := p.App(defs[j].app)
			vAssert(aerr == nil && ra != nil && ra.ID == defs[j].app, "a loaded application id resolves")
		}
	}
	vReach("C17_load")
}

// zzC17_apps: up to N application declarations (id from {4, 77}, type "", "auth" or "acct": case-split),
// each loaded as a further dictionary; after every load App(id) and App(id, type) are compared with
// the reference (an application declared without a type serves every type) and with the previous
// answer: a resolvable application id never becomes unresolvable.
func zzC17_apps() {
	p, err := dict.NewParser()
	vAssume(err == nil)
	types := [3]string{"", "auth", "acct"}
	qID := vPick32("qid", 4, 77)
	qTyp := types[vChoice("qtyp", 3)]
	type decl struct {
		id  uint32
		typ string
	}
	var decls []decl
	prev := false
	n := vLen("decls", 1, vParam("N", 3))
	for i := 0; i < n; i++ {
		d := decl{vPick32("id", 4, 77), types[vChoice("typ", 3)]}
		decls = append(decls, d)
		lerr := p.Load(vDictFile(&dict.File{App: []*dict.App{{ID: d.id, Type: d.typ, Name: "app"}}}))
		vAssert(lerr == nil, "an application declaration loads")
		want := false
		for _, x := range decls {
			if x.id == qID && (qTyp == "" || x.typ == qTyp || x.typ == "") {
				want = true
			}
		}
		var ra *dict.App
		var aerr error
		if qTyp == "" {
			ra, aerr = p.App(qID)
		} else {
			ra, aerr = p.App(qID, qTyp)
		}
		vObserve("resolved", zzB2U(aerr == nil))
		if aerr == nil {
			vAssert(ra != nil && ra.ID == qID, "a resolved application carries the requested id")
		}
		if want {
			vAssert(aerr == nil, "a declared application id resolves for its type (an untyped declaration serves every type), whatever was loaded afterwards")
		}
		if prev {
			vAssert(aerr == nil, "loading a further dictionary never makes a resolvable application id unresolvable")
		}
		prev = aerr == nil
	}
	vReach("C17_apps")
}

// zzC17_embedded: the embedded dictionaries. A symbolic (code, vendor | wildcard) query for every
// loaded application id and for an unrelated one, resolved by the real indexes, against the reference
// resolver over the public list of applications in load order: every key present and its
// neighbours (absent codes, other vendors, child and unrelated applications) is covered by the
// solver's case split. Plus: every AVP name of every application resolves to the latest definition
// reachable through the parent chain, and every command and application id resolves.
func zzC17_embedded() {
	p := dict.Default
	apps := p.Apps()
	var ids []uint32
	for _, a := range apps {
		dup := false
		for _, x := range ids {
			if x == a.ID {
				dup = true
			}
		}
		if !dup {
			ids = append(ids, a.ID)
		}
	}
	ids = append(ids, 7777777) // an application no dictionary defines: falls back to base
	var defs []zzDef
	for _, a := range apps {
		for _, d := range a.AVP {
			defs = append(defs, zzDef{app: a.ID, code: d.Code, vendor: d.VendorID, name: d.Name, avp: d})
		}
	}
	mode := vChoice("mode", 2)
	if mode == 0 {
		qApp := ids[vChoice("qapp", len(ids))]
		qCode, qVendor := vU32("qcode"), vU32("qvendor")
		if zzFlag("wildcard") {
			qVendor = dict.UndefinedVendorID
		} else {
			vAssume(qVendor != dict.UndefinedVendorID)
		}
		got, gerr := p.FindAVPWithVendor(qApp, qCode, qVendor)
		want := zzRefFind(defs, qApp, qCode, "", false, qVendor)
		if want != nil {
			vAssert(gerr == nil && got == want.avp, "embedded dictionaries: lookup by code yields the definition of the application, else its parents, else base; exact vendor or wildcard; latest wins")
		} else {
			vAssert(gerr != nil && got != nil && got.Code == qCode && got.Data.Type == datatype.UnknownType, "embedded dictionaries: an undefined numeric code yields an opaque placeholder and an error")
		}
	} else {
		// concrete sweep over every name, command and application (no quantified input: evaluated by the
		// engine on the real code, reported as a concrete sub-check)
		for _, a := range apps {
			for _, d := range a.AVP {
				got, err := p.FindAVPWithVendor(a.ID, d.Name, dict.UndefinedVendorID)
				want := zzRefFind(defs, a.ID, 0, d.Name, true, dict.UndefinedVendorID)
				vAssert(err == nil && want != nil && got == want.avp, "every AVP name of every embedded application resolves to its latest definition")
				_, terr := datatype.Decode(d.Data.Type, nil)
				_ = terr
				vAssert(d.Data.Type != datatype.UnknownType, "every embedded AVP has a declared data type")
			}
			for _, c := range a.Command {
				got, err := p.FindCommand(a.ID, c.Code)
				vAssert(err == nil && got != nil && got.Code == c.Code, "every embedded command resolves")
			}
			ra, err := p.App(a.ID)
			vAssert(err == nil && ra != nil && ra.ID == a.ID, "every embedded application id resolves")
		}
	}
	vReach("C17_embedded")
}

// ---- exported constants vs the embedded dictionaries (concrete sub-check, no quantified input) ----

// zzNorm maps a dictionary name ("Origin-Host", "3GPP-IMSI") and a Go identifier ("OriginHost",
// "TGPPIMSI") to the same key: letters and digits only, lower case, a leading 3GPP spelled TGPP.
func zzNorm(s string) string {
	out := make([]byte, 0, len(s))
	for i := 0; i < len(s); i++ {
		c := s[i]
		switch {
		case c >= 'A' && c <= 'Z':
			out = append(out, c+32)
		case (c >= 'a' && c <= 'z') || (c >= '0' && c <= '9'):
			out = append(out, c)
		}
	}
	if len(out) >= 4 && out[0] == '3' && out[1] == 'g' && out[2] == 'p' && out[3] == 'p' {
		out[0] = 't'
	}
	return string(out)
}

// zzC17_constants: every exported AVP code constant whose name a dictionary defines equals one of the
// codes the embedded dictionaries give that name; likewise command codes (by command name) and
// application ids. The constant lists and the dictionary texts are extracted from /repo's current
// source by the front end on every run.
func zzC17_constants() {
	p, err := dict.NewParser()
	vAssume(err == nil)
	for _, x := range dict.ZzEmbeddedXML() {
		lerr := p.Load(zzNewReader([]byte(x)))
		// (texts that redefine a command of an already loaded application are skipped, as Load demands)
		_ = lerr
	}
	avpCodes := map[string][]uint32{}
	cmdCodes := map[string][]uint32{}
	appIDs := map[uint32]bool{}
	for _, a := range p.Apps() {
		appIDs[a.ID] = true
		for _, d := range a.AVP {
			k := zzNorm(d.Name)
			avpCodes[k] = append(avpCodes[k], d.Code)
		}
		for _, c := range a.Command {
			k := zzNorm(c.Name)
			cmdCodes[k] = append(cmdCodes[k], c.Code)
		}
	}
	has := func(l []uint32, v uint32) bool {
		for _, x := range l {
			if x == v {
				return true
			}
		}
		return false
	}
	matched := 0
	for _, c := range zzAVPConsts {
		if l, ok := avpCodes[zzNorm(c.name)]; ok {
			matched++
			vAssert(has(l, c.val), "exported AVP code constant equals the code in the embedded dictionaries")
		}
	}
	vAssert(matched > 0, "some exported AVP constants name dictionary AVPs (the comparison is not vacuous)")
	cm := 0
	for _, c := range zzCmdConsts {
		if l, ok := cmdCodes[zzNorm(c.name)]; ok {
			cm++
			vAssert(has(l, c.val), "exported command code constant equals the code in the embedded dictionaries")
		}
	}
	vAssert(cm > 0, "some exported command constants name dictionary commands (the comparison is not vacuous)")
	for _, c := range zzAppConsts {
		vAssert(appIDs[c.val], "exported application id constant is an application of the embedded dictionaries")
	}
	vObserve("matched", uint64(matched))
	vReach("C17_constants")
}
