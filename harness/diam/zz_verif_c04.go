package diam

import (
	"github.com/fiorix/go-diameter/v4/diam/datatype"
)

// C04: AVP boundaries are taken from the Length fields only.

// zzC04_top: K top-level AVPs (K = 1..2), slot sizes case-split, contents symbolic.
func zzC04_top() {
	k := vLen("k", 1, vParam("K", 2))
	pmax := vParam("P", 16)
	sizes := make([]int, k)
	total := 0
	for i := range sizes {
		sizes[i] = 4 * vLen("p4", 2, pmax/4)
		total += sizes[i]
	}
	body := vBytes("body", total)
	app := vU32("app")
	d := vAbstractDict()
	recs := zzFrameFixed(body, sizes)
	zzKnownCommand(d, app, 257)
	m, err := ReadMessage(zzNewReader(zzMessageBytes(body, 0x80, 257, app)), d)
	// the dictionary's answers for the reference records (functionally consistent with what the
	// decoder saw); asked after decoding so that the oracle adds no case splits of its own
	types := make([]datatype.TypeID, k)
	for i, r := range recs {
		da, _ := d.FindAVPWithVendor(app, r.code, r.vendor)
		types[i] = da.Data.Type
		// nested framing is the subject of zzC04_group
		vAssume(types[i] != datatype.GroupedType)
	}
	for i, r := range recs {
		if zzC04KnownRegion(types[i], r.l-r.hdr, body[r.off+r.hdr:r.off+r.l]) {
			break
		}
	}
	vObserve("read", zzB2U(err == nil))
	if err == nil {
		vObserve("navps", uint64(len(m.AVP)))
		for _, a := range m.AVP {
			vObserve("code", uint64(a.Code))
			vObserve("Length", uint64(a.Length))
			vObserveBytes("data", a.Data.Serialize())
		}
		vAssert(len(m.AVP) == k, "decoder reports exactly the AVPs found by walking by declared length")
		for i, r := range recs {
			a := m.AVP[i]
			vAssert(a.Code == r.code && a.Flags == r.flags && a.VendorID == r.vendor, "code, flags and vendor id come from the reference offsets")
			if zzLegalLen(types[i], r.l-r.hdr) {
				pl := a.Data.Serialize()
				want := body[r.off+r.hdr : r.off+r.l]
				if types[i] != datatype.AddressType {
					vAssert(len(pl) == len(want), "payload length")
					for j := range want {
						vAssert(pl[j] == want[j], "payload bytes are the bytes between header and declared length")
					}
				}
			}
		}
	}
	vReach("C04_top")
}

// zzC04KnownRegion marks the region of the (now repaired or listed) framing findings.
func zzC04KnownRegion(ty datatype.TypeID, n int, payload []byte) bool {
	return vKnown("KF-C04-advance-by-value-len", !zzLegalLen(ty, n) || ty == datatype.AddressType)
}

// zzC04_badlen: a declared length shorter than the AVP header or longer than the container is an error.
func zzC04_badlen() {
	n := 4 * vLen("n4", 2, vParam("P", 16)/4)
	body := vBytes("body", n)
	app := vU32("app")
	d := vAbstractDict()
	l := int(body[5])<<16 | int(body[6])<<8 | int(body[7])
	hdr := 8
	if body[4]&0x80 != 0 {
		hdr = 12
	}
	vAssume(l < hdr || l > n)
	zzKnownCommand(d, app, 257)
	m, err := ReadMessage(zzNewReader(zzMessageBytes(body, 0x80, 257, app)), d)
	vAssert(err != nil && m == nil, "declared length below the header size or beyond the container is an error")
	// the same inside DecodeGrouped
	g, err2 := DecodeGrouped(datatype.Grouped(body), app, d)
	vAssert(err2 != nil && g == nil, "declared length below the header size or beyond the group is an error")
	vReach("C04_badlen")
}

// zzC04_group: the same walk inside a grouped AVP: outer AVP of type Grouped holding K inner AVPs.
func zzC04_group() {
	k := vLen("k", 1, vParam("K", 2))
	pmax := vParam("P", 12)
	sizes := make([]int, k)
	total := 0
	for i := range sizes {
		sizes[i] = 4 * vLen("p4", 2, pmax/4)
		total += sizes[i]
	}
	inner := vBytes("inner", total)
	app := vU32("app")
	d := vAbstractDict()
	recs := zzFrameFixed(inner, sizes)
	g, err := DecodeGrouped(datatype.Grouped(inner), app, d)
	types := make([]datatype.TypeID, k)
	for i, r := range recs {
		da, _ := d.FindAVPWithVendor(app, r.code, r.vendor)
		types[i] = da.Data.Type
		vAssume(types[i] != datatype.GroupedType)
	}
	for i, r := range recs {
		if zzC04KnownRegion(types[i], r.l-r.hdr, inner[r.off+r.hdr:r.off+r.l]) {
			break
		}
	}
	if err == nil {
		vAssert(len(g.AVP) == k, "group members are exactly the AVPs found by walking by declared length")
		for i, r := range recs {
			a := g.AVP[i]
			vAssert(a.Code == r.code && a.Flags == r.flags && a.VendorID == r.vendor, "member code, flags and vendor id come from the reference offsets")
			if zzLegalLen(types[i], r.l-r.hdr) && types[i] != datatype.AddressType {
				pl := a.Data.Serialize()
				want := inner[r.off+r.hdr : r.off+r.l]
				vAssert(len(pl) == len(want), "member payload length")
				for j := range want {
					vAssert(pl[j] == want[j], "member payload bytes")
				}
			}
		}
	}
	// and through an outer AVP whose dictionary type is Grouped
	ocode, oflags := vU32("ocode"), vU8("oflags")&0x7f
	da, _ := d.FindAVPWithVendor(app, ocode, 0)
	vAssume(da.Data.Type == datatype.GroupedType)
	outer := make([]byte, 8+total)
	outer[0], outer[1], outer[2], outer[3] = byte(ocode>>24), byte(ocode>>16), byte(ocode>>8), byte(ocode)
	outer[4] = oflags
	ol := 8 + total
	outer[5], outer[6], outer[7] = byte(ol>>16), byte(ol>>8), byte(ol)
	copy(outer[8:], inner)
	a, err3 := DecodeAVP(outer, app, d)
	vAssert((err3 == nil) == (err == nil), "grouped AVP decodes exactly when its payload walks")
	if err3 == nil {
		ga, ok := a.Data.(*GroupedAVP)
		vAssert(ok && len(ga.AVP) == k, "nested members counted by declared length")
	}
	// and in a message, followed by a sibling AVP: the sibling is found exactly behind the group's
	// declared length, whatever sizes the members' data types expect
	sib := vBytes("sibling", 8)
	vAssume(sib[4]&0x80 == 0 && sib[5] == 0 && sib[6] == 0 && sib[7] == 8)
	sibCode := zzBE32(sib[0:4])
	ds, _ := d.FindAVPWithVendor(app, sibCode, 0)
	vAssume(ds.Data.Type == datatype.UnknownType) // (an undefined code: the sibling is only a marker)
	zzKnownCommand(d, app, 257)
	msg, merr := ReadMessage(zzNewReader(zzMessageBytes(append(append([]byte(nil), outer...), sib...), 0x80, 257, app)), d)
	vAssert((merr == nil) == (err == nil), "a message holding the group and a sibling decodes exactly when the group's payload walks")
	if merr == nil {
		vAssert(len(msg.AVP) == 2 && msg.AVP[0].Code == ocode && msg.AVP[1].Code == sibCode && msg.AVP[1].Flags == sib[4], "the AVP following a group is the one found by walking by the group's declared length")
	}
	vReach("C04_group")
}

// zzC04_trailing: no bytes are skipped: a container whose last 1..7 bytes cannot hold an AVP header
// is an error, at top level and inside groups.
func zzC04_trailing() {
	p := 4 * vLen("p4", 2, vParam("P", 12)/4)
	t := vLen("t", 1, 7)
	body := vBytes("body", p+t)
	app := vU32("app")
	d := vAbstractDict()
	zzFrameFixed(body[:p], []int{p})
	da, _ := d.FindAVPWithVendor(app, zzBE32(body[0:4]), 0)
	// a string-like first AVP: the walk reaches the trailing bytes whatever the payload is
	vAssume(body[4]&0x80 == 0 && da.Data.Type == datatype.OctetStringType)
	zzKnownCommand(d, app, 257)
	m, err := ReadMessage(zzNewReader(zzMessageBytes(body, 0x80, 257, app)), d)
	vAssert(err != nil && m == nil, "trailing bytes that cannot hold an AVP header are an error")
	g, err2 := DecodeGrouped(datatype.Grouped(body), app, d)
	vAssert(err2 != nil && g == nil, "trailing bytes inside a group that cannot hold an AVP header are an error")
	vReach("C04_trailing")
}
