package diam

// C14: CloseNotify fires exactly once when, and only when, the connection is gone.

func zzIsClosed(ch <-chan struct{}) bool {
	select {
	case <-ch:
		return true
	default:
		return false
	}
}

type zzC14Handler struct {
	serve  func(Conn, *Message)
	report func(*ErrorReport)
}

func (h *zzC14Handler) ServeDIAM(c Conn, m *Message)      { h.serve(c, m) }
func (h *zzC14Handler) Error(er *ErrorReport)             { h.report(er) }
func (h *zzC14Handler) ErrorReports() <-chan *ErrorReport { return nil }

// zzC14_notify: diam.NewConn on an in-memory transport; a case-split sequence of <= E events from
// {CloseNotify requested from a handler, requested from another goroutine while the reader is
// blocked, message delivered whole, message delivered in two fragments, peer EOF, transport read
// error, undecodable message followed by data, local Close, CloseNotify requested after termination}.
func zzC14_notify() {
	d := vAbstractDict()
	zzKnownCommand(d, 0, 257)
	t := zzNewTransport("198.51.100.1:1000")
	var delivered []uint32
	var chans []<-chan struct{}
	wantNotifyInHandler := false
	wantNotifyInError := false
	panicAt := uint32(0xffffffff) // hop-by-hop id of the message whose handler panics
	h := &zzC14Handler{
		serve: func(c Conn, m *Message) {
			delivered = append(delivered, m.Header.HopByHopID)
			if wantNotifyInHandler {
				wantNotifyInHandler = false
				chans = append(chans, c.(CloseNotifier).CloseNotify())
			}
			if m.Header.HopByHopID == panicAt {
				panic("zz: handler fault")
			}
		},
		// the error reporter runs in the connection's goroutine after the transport was closed and
		// before the connection is torn down: a CloseNotify request from there lands in that window
		report: func(er *ErrorReport) {
			if wantNotifyInError && er.Conn != nil {
				wantNotifyInError = false
				vQuiesce() // let the connection's other goroutines (the pipe copier) notice the closed transport first
				chans = append(chans, er.Conn.(CloseNotifier).CloseNotify())
			}
		},
	}
	c, err := NewConn(t, "zz", h, d)
	vAssume(err == nil)
	vQuiesce()
	ne := vLen("events", 1, vParam("E", 3))
	var sent []uint32
	next := uint32(1)
	terminated := false // the peer / transport / local side ended the connection
	localClose := false // the local side closed the connection (may race with messages in flight)
	poisoned := false   // an undecodable message was delivered: nothing after it may reach a handler
	for i := 0; i < ne; i++ {
		switch vChoice("event", 10) {
		case 9: // a message whose handler panics: the connection is terminated by the library's recovery
			if !terminated {
				panicAt = next
				t.in <- zzPlainMessage(257, 0x80, 0, next)
				if !poisoned {
					sent = append(sent, next)
				}
				next++
				terminated = true
			}
		case 0: // next message's handler requests CloseNotify
			wantNotifyInHandler = true
			fallthrough
		case 1: // a message in one segment
			if !terminated {
				t.in <- zzPlainMessage(257, 0x80, 0, next)
				if !poisoned {
					sent = append(sent, next)
				}
				next++
			}
		case 2: // a message in two fragments
			if !terminated {
				m := zzPlainMessage(257, 0x80, 0, next)
				k := 1 + vChoice("split", 3)*9 // after 1, 10 or 19 bytes
				t.in <- m[:k]
				vQuiesce()
				t.in <- m[k:]
				if !poisoned {
					sent = append(sent, next)
				}
				next++
			}
		case 3: // CloseNotify requested from another goroutine (the reader is blocked in Read, or gone)
			chans = append(chans, c.(CloseNotifier).CloseNotify())
		case 4: // peer EOF
			if !terminated {
				close(t.in)
				terminated = true
			}
		case 5: // transport read error
			if !terminated {
				t.in <- nil
				terminated = true
			}
		case 6: // undecodable message (declared length below the header size) followed by data
			if !terminated {
				bad := zzPlainMessage(257, 0x80, 0, 0xdead)
				bad[1], bad[2], bad[3] = 0, 0, 5
				wantNotifyInError = zzFlag("notifyFromErrorReport")
				tail := zzPlainMessage(257, 0x80, 0, 0xbeef)
				if zzFlag("bigTrailer") {
					// more trailing data than the connection's 4 KiB read buffer takes in one gulp
					tail = append(tail, make([]byte, 5000)...)
				}
				t.in <- append(bad, tail...)
				poisoned = true
				terminated = true
			}
		case 7: // local Close
			if !terminated {
				c.Close()
				terminated = true
				localClose = true
			}
		case 8: // a message whose last bytes are returned by the same Read as the end of the stream
			if !terminated {
				t.eofWithData = true
				t.in <- zzPlainMessage(257, 0x80, 0, next)
				if !poisoned {
					sent = append(sent, next)
				}
				next++
				terminated = true
			}
		}
		vQuiesce()
		for _, ch := range chans {
			if zzIsClosed(ch) {
				vAssert(terminated, "a CloseNotify channel is closed only after the connection has terminated")
			}
		}
	}
	vQuiesce()
	if terminated {
		vAssert(t.isClosed, "a terminated connection's transport is closed")
		for _, ch := range chans {
			vAssert(zzIsClosed(ch), "every CloseNotify channel is closed once the connection has terminated, whenever it was requested")
		}
		vAssert(vLeaks() == 0, "every goroutine started for the connection has exited")
	}
	// requesting CloseNotify never loses, duplicates or reorders inbound messages
	vAssert(len(delivered) <= len(sent), "no message is duplicated or invented")
	for i := range delivered {
		if i < len(sent) {
			vAssert(delivered[i] == sent[i], "inbound messages reach the handler in order")
		}
	}
	if !localClose {
		// everything sent ahead of the end of the stream / the read error / the undecodable message is
		// delivered (a local Close may legitimately race with messages still in flight)
		vAssert(len(delivered) == len(sent), "no inbound message is lost")
	}
	vReach("C14_notify")
}
