package diam

import (
	"github.com/fiorix/go-diameter/v4/diam/avp"
	"github.com/fiorix/go-diameter/v4/diam/datatype"
	"github.com/fiorix/go-diameter/v4/diam/dict"
)

// C18: struct marshalling and unmarshalling are inverse and dictionary-faithful.

type zzVSA struct {
	VendorID  uint32 `avp:"Vendor-Id"`
	AuthAppID uint32 `avp:"Auth-Application-Id"`
}

type zzEmbedded struct {
	ProductName string `avp:"Product-Name"`
}

// zzS1: scalars of Go and datatype types, omitempty, pointer, slices, nested / pointer / slice of
// grouped structs, embedded struct.
type zzS1 struct {
	OriginHost  datatype.DiameterIdentity `avp:"Origin-Host"`
	ResultCode  uint32                    `avp:"Result-Code"`
	VendorID    datatype.Unsigned32       `avp:"Vendor-Id"`
	Firmware    uint32                    `avp:"Firmware-Revision,omitempty"`
	OriginState *uint32                   `avp:"Origin-State-Id"`
	Supported   []uint32                  `avp:"Supported-Vendor-Id"`
	VSA         zzVSA                     `avp:"Vendor-Specific-Application-Id"`
	zzEmbedded
	Untagged int
}

type zzS2 struct {
	SessionID  datatype.UTF8String `avp:"Session-Id"`
	AcctApps   []*zzVSA            `avp:"Vendor-Specific-Application-Id"`
	ErrMessage *string             `avp:"Error-Message,omitempty"`
	Inband     int32               `avp:"Inband-Security-Id"`
}

// zzS3: AVP / *AVP / []*AVP shapes.
type zzS3 struct {
	OriginHost *AVP   `avp:"Origin-Host"`
	Realm      AVP    `avp:"Origin-Realm"`
	Vendors    []*AVP `avp:"Supported-Vendor-Id"`
}

func zzSymStr(tag string, n int) string { return string(vBytes(tag, n)) }

func zzHandAVP(m *Message, name string, data datatype.Type) *AVP {
	d, err := m.Dictionary().FindAVP(m.Header.ApplicationID, name)
	vAssume(err == nil)
	var fl uint8
	for i := 0; i < len(d.Must); i++ {
		if d.Must[i] == 'M' {
			fl = avp.Mbit
		}
	}
	if d.VendorID > 0 {
		fl |= avp.Vbit
	}
	return &AVP{Code: d.Code, Flags: fl, VendorID: d.VendorID, Data: data}
}

func zzSameAVP(got, want *AVP, label string) {
	vAssert(got.Code == want.Code && got.Flags == want.Flags && got.VendorID == want.VendorID, label+": code, vendor id, M and V flags as the dictionary says")
	zzBytesEq(got.Data.Serialize(), want.Data.Serialize(), label+": typed value")
	vAssert(got.Data.Type() == want.Data.Type(), label+": data type")
}

// zzC18_prior gives the message a history before Marshal: nothing, an AVP added by hand, or an
// earlier Marshal of another value into the same message (Marshal replaces the AVP list).
func zzC18_prior(m *Message) {
	switch vChoice("prior", 3) {
	case 1:
		m.NewAVP(avp.OriginStateID, avp.Mbit, 0, datatype.Unsigned32(1))
	case 2:
		vAssert(m.Marshal(&zzS2{SessionID: "earlier"}) == nil, "earlier Marshal succeeds")
	}
}

func zzC18_s1() {
	src := zzS1{
		OriginHost: datatype.DiameterIdentity(zzSymStr("oh", vLen("ohlen", 0, 3))),
		ResultCode: vU32("rc"),
		VendorID:   datatype.Unsigned32(vU32("vendor")),
		Firmware:   vU32("fw"),
		VSA:        zzVSA{VendorID: vU32("vsa.vendor"), AuthAppID: vU32("vsa.app")},
		Untagged:   7,
	}
	src.ProductName = zzSymStr("pn", 2)
	if zzFlag("hasOriginState") {
		x := vU32("osid")
		src.OriginState = &x
	}
	ns := vLen("nsupported", 0, 2)
	for i := 0; i < ns; i++ {
		src.Supported = append(src.Supported, vU32("sup"))
	}
	m := NewRequest(CapabilitiesExchange, 0, dict.Default)
	zzC18_prior(m)
	err := m.Marshal(&src)
	vAssert(err == nil, "Marshal succeeds on a supported struct")
	if err != nil {
		return
	}
	// the AVPs a caller would build by hand from the dictionary, in field order
	var want []*AVP
	want = append(want, zzHandAVP(m, "Origin-Host", src.OriginHost))
	want = append(want, zzHandAVP(m, "Result-Code", datatype.Unsigned32(src.ResultCode)))
	want = append(want, zzHandAVP(m, "Vendor-Id", src.VendorID))
	if src.Firmware != 0 {
		want = append(want, zzHandAVP(m, "Firmware-Revision", datatype.Unsigned32(src.Firmware)))
	}
	if src.OriginState != nil {
		want = append(want, zzHandAVP(m, "Origin-State-Id", datatype.Unsigned32(*src.OriginState)))
	}
	for _, s := range src.Supported {
		want = append(want, zzHandAVP(m, "Supported-Vendor-Id", datatype.Unsigned32(s)))
	}
	want = append(want, zzHandAVP(m, "Vendor-Specific-Application-Id", &GroupedAVP{AVP: []*AVP{
		zzHandAVP(m, "Vendor-Id", datatype.Unsigned32(src.VSA.VendorID)),
		zzHandAVP(m, "Auth-Application-Id", datatype.Unsigned32(src.VSA.AuthAppID)),
	}}))
	want = append(want, zzHandAVP(m, "Product-Name", datatype.UTF8String(src.ProductName)))
	vAssert(len(m.AVP) == len(want), "Marshal emits one AVP per non-omitted field / element")
	if len(m.AVP) == len(want) {
		for i := range want {
			zzSameAVP(m.AVP[i], want[i], "marshalled AVP")
		}
	}
	b, serr := m.Serialize()
	vAssert(serr == nil && int(m.Header.MessageLength) == len(b), "message length bookkeeping after Marshal")
	vObserveBytes("marshalled", b[20:]) // (the header carries random identifiers)
	check := func(dst *zzS1, how string) {
		vAssert(dst.OriginHost == src.OriginHost && dst.ResultCode == src.ResultCode && dst.VendorID == src.VendorID, how+": scalar fields reproduced")
		vAssert(dst.Firmware == src.Firmware, how+": omitempty field reproduced (zero when omitted)")
		if src.OriginState == nil {
			vAssert(dst.OriginState == nil, how+": nil pointer stays nil")
		} else {
			vAssert(dst.OriginState != nil && *dst.OriginState == *src.OriginState, how+": pointer field reproduced")
		}
		vAssert(len(dst.Supported) == len(src.Supported), how+": slice length reproduced")
		if len(dst.Supported) == len(src.Supported) {
			for i := range src.Supported {
				vAssert(dst.Supported[i] == src.Supported[i], how+": slice elements reproduced in order")
			}
		}
		vAssert(dst.VSA == src.VSA, how+": nested grouped struct reproduced")
		vAssert(dst.ProductName == src.ProductName, how+": embedded struct field reproduced")
		vAssert(dst.Untagged == 0, how+": untagged field untouched")
	}
	var d1 zzS1
	vAssert(m.Unmarshal(&d1) == nil, "Unmarshal succeeds")
	check(&d1, "direct")
	back, rerr := ReadMessage(zzNewReader(b), dict.Default)
	vAssert(rerr == nil, "marshalled message survives the wire")
	if rerr == nil {
		var d2 zzS1
		vAssert(back.Unmarshal(&d2) == nil, "Unmarshal after the wire round trip succeeds")
		check(&d2, "via wire")
	}
	vReach("C18_s1")
}

func zzC18_s2() {
	src := zzS2{SessionID: datatype.UTF8String(zzSymStr("sid", 3)), Inband: int32(vU32("inband"))}
	n := vLen("ngroups", 0, 2)
	for i := 0; i < n; i++ {
		src.AcctApps = append(src.AcctApps, &zzVSA{VendorID: vU32("g.vendor"), AuthAppID: vU32("g.app")})
	}
	if zzFlag("hasErr") {
		s := zzSymStr("err", vLen("errlen", 0, 2))
		src.ErrMessage = &s
	}
	m := NewRequest(CapabilitiesExchange, 0, dict.Default)
	zzC18_prior(m)
	err := m.Marshal(&src)
	vAssert(err == nil, "Marshal succeeds on a supported struct")
	if err != nil {
		return
	}
	b, serr := m.Serialize()
	vAssert(serr == nil && int(m.Header.MessageLength) == len(b), "message length bookkeeping after Marshal")
	check := func(dst *zzS2, how string) {
		vAssert(dst.SessionID == src.SessionID && dst.Inband == src.Inband, how+": scalar fields reproduced")
		vAssert(len(dst.AcctApps) == len(src.AcctApps), how+": slice of grouped structs: length")
		if len(dst.AcctApps) == len(src.AcctApps) {
			for i := range src.AcctApps {
				vAssert(dst.AcctApps[i] != nil && *dst.AcctApps[i] == *src.AcctApps[i], how+": slice of pointers to grouped structs reproduced")
			}
		}
		if src.ErrMessage == nil || *src.ErrMessage == "" {
			// omitted when empty (a pointer to an empty string is not a nil pointer: the field is emitted but empty)
		}
		if src.ErrMessage != nil {
			vAssert(dst.ErrMessage != nil && *dst.ErrMessage == *src.ErrMessage, how+": pointer to string reproduced")
		} else {
			vAssert(dst.ErrMessage == nil, how+": nil pointer stays nil")
		}
	}
	var d1 zzS2
	vAssert(m.Unmarshal(&d1) == nil, "Unmarshal succeeds")
	check(&d1, "direct")
	back, rerr := ReadMessage(zzNewReader(b), dict.Default)
	vAssert(rerr == nil, "marshalled message survives the wire")
	if rerr == nil {
		var d2 zzS2
		vAssert(back.Unmarshal(&d2) == nil, "Unmarshal after the wire round trip succeeds")
		check(&d2, "via wire")
	}
	vReach("C18_s2")
}

func zzC18_s3() {
	m0 := NewRequest(CapabilitiesExchange, 0, dict.Default)
	src := zzS3{
		OriginHost: zzHandAVP(m0, "Origin-Host", datatype.DiameterIdentity(zzSymStr("oh", 2))),
		Realm:      *zzHandAVP(m0, "Origin-Realm", datatype.DiameterIdentity(zzSymStr("or", 1))),
	}
	n := vLen("nvendors", 0, 2)
	for i := 0; i < n; i++ {
		src.Vendors = append(src.Vendors, zzHandAVP(m0, "Supported-Vendor-Id", datatype.Unsigned32(vU32("sv"))))
	}
	vKnown("KF-C18-avp-fields-not-marshalled", true)
	m := NewRequest(CapabilitiesExchange, 0, dict.Default)
	zzC18_prior(m)
	err := m.Marshal(&src)
	vAssert(err == nil, "Marshal succeeds on AVP / *AVP / []*AVP fields")
	if err != nil {
		return
	}
	var d1 zzS3
	vAssert(m.Unmarshal(&d1) == nil, "Unmarshal succeeds")
	vAssert(d1.OriginHost != nil, "*AVP field reproduced")
	if d1.OriginHost != nil {
		zzSameAVP(d1.OriginHost, src.OriginHost, "*AVP field")
	}
	zzSameAVP(&d1.Realm, &src.Realm, "AVP field")
	vAssert(len(d1.Vendors) == len(src.Vendors), "[]*AVP length reproduced")
	if len(d1.Vendors) == len(src.Vendors) {
		for i := range src.Vendors {
			zzSameAVP(d1.Vendors[i], src.Vendors[i], "[]*AVP element")
		}
	}
	vReach("C18_s3")
}

// zzS4: vendor-specific AVPs of an application dictionary (S6a): V flag from the vendor id, M from "must".
type zzS4 struct {
	ServiceSelection datatype.UTF8String       `avp:"Service-Selection"`  // vendor 10415, must="M", must-not="V"
	VisitedPLMN      datatype.OctetString      `avp:"Visited-PLMN-Id"`    // vendor 10415, must="M,V"
	OriginHost       datatype.DiameterIdentity `avp:"Origin-Host"`        // base application, through the parent chain
	RuleBase         datatype.UTF8String       `avp:"ADC-Rule-Base-Name"` // parent application 4, vendor 10415, must="V,M" (M not listed first)
	Failed           zzFailedS6a               `avp:"Failed-AVP"`         // a group the base application declares, holding a member only S6a declares
}

type zzFailedS6a struct {
	VisitedPLMN datatype.OctetString `avp:"Visited-PLMN-Id"`
}

func zzC18_s4() {
	src := zzS4{
		ServiceSelection: datatype.UTF8String(zzSymStr("ss", 2)),
		VisitedPLMN:      datatype.OctetString(zzSymStr("plmn", 3)),
		OriginHost:       datatype.DiameterIdentity(zzSymStr("oh", 1)),
		RuleBase:         datatype.UTF8String(zzSymStr("rb", 2)),
		Failed:           zzFailedS6a{VisitedPLMN: datatype.OctetString(zzSymStr("fplmn", 3))},
	}
	m := NewRequest(316, 16777251, dict.Default)
	err := m.Marshal(&src)
	vAssert(err == nil, "Marshal succeeds on a supported struct")
	if err != nil {
		return
	}
	want := []*AVP{
		zzHandAVP(m, "Service-Selection", src.ServiceSelection),
		zzHandAVP(m, "Visited-PLMN-Id", src.VisitedPLMN),
		zzHandAVP(m, "Origin-Host", src.OriginHost),
		zzHandAVP(m, "ADC-Rule-Base-Name", src.RuleBase),
		zzHandAVP(m, "Failed-AVP", &GroupedAVP{AVP: []*AVP{zzHandAVP(m, "Visited-PLMN-Id", src.Failed.VisitedPLMN)}}),
	}
	// independent of zzHandAVP: the vendor-specific ones carry V and the dictionary's vendor id
	vAssert(want[0].VendorID == 10415 && want[1].VendorID == 10415 && want[2].VendorID == 0 && want[3].VendorID == 10415 && want[4].VendorID == 0, "dictionary vendor ids")
	vAssert(len(m.AVP) == 5, "one AVP per field")
	if len(m.AVP) == 5 {
		for i := range want {
			zzSameAVP(m.AVP[i], want[i], "marshalled vendor-specific AVP")
		}
		vAssert(m.AVP[0].Flags == avp.Vbit|avp.Mbit && m.AVP[1].Flags == avp.Vbit|avp.Mbit && m.AVP[2].Flags == avp.Mbit && m.AVP[3].Flags == avp.Vbit|avp.Mbit, "V flag follows the vendor id, M flag follows the must attribute")
	}
	b, serr := m.Serialize()
	vAssert(serr == nil && int(m.Header.MessageLength) == len(b), "message length bookkeeping after Marshal")
	back, rerr := ReadMessage(zzNewReader(b), dict.Default)
	vAssert(rerr == nil, "marshalled message survives the wire")
	if rerr == nil {
		var d2 zzS4
		vAssert(back.Unmarshal(&d2) == nil, "Unmarshal after the wire round trip succeeds")
		vAssert(d2 == src, "vendor-specific fields reproduced after the wire round trip")
	}
	vReach("C18_s4")
}

// zzS5: an anonymous (embedded) struct field that carries an avp tag is a grouped AVP of its own, not
// a set of promoted fields.
type zzS5 struct {
	SessionID datatype.UTF8String `avp:"Session-Id"`
	zzVSA     `avp:"Vendor-Specific-Application-Id"`
}

func zzC18_s5() {
	src := zzS5{SessionID: datatype.UTF8String(zzSymStr("sid", 2)), zzVSA: zzVSA{VendorID: vU32("vendor"), AuthAppID: vU32("app")}}
	m := NewRequest(CapabilitiesExchange, 0, dict.Default)
	zzC18_prior(m)
	err := m.Marshal(&src)
	vAssert(err == nil, "Marshal succeeds on a supported struct")
	if err != nil {
		return
	}
	want := []*AVP{
		zzHandAVP(m, "Session-Id", src.SessionID),
		zzHandAVP(m, "Vendor-Specific-Application-Id", &GroupedAVP{AVP: []*AVP{
			zzHandAVP(m, "Vendor-Id", datatype.Unsigned32(src.VendorID)),
			zzHandAVP(m, "Auth-Application-Id", datatype.Unsigned32(src.AuthAppID)),
		}}),
	}
	vAssert(len(m.AVP) == len(want), "a tagged embedded struct is marshalled as one grouped AVP")
	if len(m.AVP) == len(want) {
		for i := range want {
			zzSameAVP(m.AVP[i], want[i], "marshalled AVP")
		}
	}
	b, serr := m.Serialize()
	vAssert(serr == nil && int(m.Header.MessageLength) == len(b), "message length bookkeeping after Marshal")
	var d1 zzS5
	vAssert(m.Unmarshal(&d1) == nil && d1 == src, "tagged embedded struct reproduced directly")
	back, rerr := ReadMessage(zzNewReader(b), dict.Default)
	vAssert(rerr == nil, "marshalled message survives the wire")
	if rerr == nil {
		var d2 zzS5
		vAssert(back.Unmarshal(&d2) == nil && d2 == src, "tagged embedded struct reproduced after the wire round trip")
	}
	vReach("C18_s5")
}
