package diam

// Native bodies of the harness intrinsics: they read the replay vector written
// by the engine (VERIF_REPLAY) so that a counterexample runs against the real build.

import (
	"bytes"
	"encoding/json"
	"encoding/xml"
	"fmt"
	"io"
	"os"
	"runtime"
	"strings"
	"sync"
	"time"

	"github.com/fiorix/go-diameter/v4/diam/datatype"
	"github.com/fiorix/go-diameter/v4/diam/dict"
)

type zzInput struct {
	Tag string `json:"tag"`
	W   int    `json:"w"`
	Val uint64 `json:"val"`
}

type zzDictEntry struct {
	App    uint32 `json:"app"`
	Code   uint32 `json:"code"`
	Vendor uint32 `json:"vendor"`
	Type   int    `json:"type"`
	Name   string `json:"name"`
	Cmd    bool   `json:"cmd"`
	NReq   int    `json:"nreq"`
	NAns   int    `json:"nans"`
}

type zzVector struct {
	Harness string           `json:"harness"`
	Values  []zzInput        `json:"values"`
	Dict    []zzDictEntry    `json:"dict"`
	Params  map[string]int64 `json:"params"`
	Known   []string         `json:"known_active"`
}

type zzDiverged struct{ msg string }
type zzAssertFail struct{ label string }

var (
	zzVec       zzVector
	zzPos       int
	zzAllocBase uint64
	zzAllocLim  int
	zzAllocOn   bool
)

func zzLoadVector(path string) error {
	data, err := os.ReadFile(path)
	if err != nil {
		return err
	}
	zzVec = zzVector{}
	zzPos = 0
	return json.Unmarshal(data, &zzVec)
}

func zzNext(tag string) uint64 {
	if zzPos >= len(zzVec.Values) {
		panic(zzDiverged{fmt.Sprintf("input vector exhausted at %q", tag)})
	}
	in := zzVec.Values[zzPos]
	zzPos++
	if in.Tag != tag {
		panic(zzDiverged{fmt.Sprintf("input %d is %q, harness asked for %q", zzPos-1, in.Tag, tag)})
	}
	return in.Val
}

func vU8(tag string) uint8   { return uint8(zzNext(tag)) }
func vU16(tag string) uint16 { return uint16(zzNext(tag)) }
func vU32(tag string) uint32 { return uint32(zzNext(tag)) }
func vU64(tag string) uint64 { return zzNext(tag) }
func vPick32(tag string, vals ...uint32) uint32 {
	v := uint32(zzNext(tag))
	for _, x := range vals {
		if x == v {
			return v
		}
	}
	panic(zzDiverged{"vPick32 value not in set"})
}
func vBool(tag string) bool { return zzNext(tag) == 1 }
func vLen(tag string, lo, hi int) int {
	v := int(zzNext(tag))
	if v < lo || v > hi {
		panic(zzDiverged{"vLen out of range"})
	}
	return v
}
func vInt(tag string, lo, hi int) int { return vLen(tag, lo, hi) }
func vChoice(tag string, n int) int   { return vLen(tag, 0, n-1) }
func vBytes(tag string, n int) []byte {
	b := make([]byte, n)
	for i := range b {
		b[i] = byte(zzNext(fmt.Sprintf("%s[%d]", tag, i)))
	}
	return b
}
func vAssume(c bool) {
	if !c {
		panic(zzDiverged{"assumption false"})
	}
}
func vAssert(c bool, label string) {
	if !c {
		panic(zzAssertFail{label})
	}
}
func vNoPanic()         {}
func vReach(tag string) {}

type zzObsVal struct {
	Tag  string   `json:"tag"`
	Vals []uint64 `json:"vals"`
}

var zzObs []zzObsVal

func vObserve(tag string, v uint64) { zzObs = append(zzObs, zzObsVal{tag, []uint64{v}}) }
func vObserveBytes(tag string, b []byte) {
	o := zzObsVal{Tag: tag, Vals: make([]uint64, len(b))}
	for i, x := range b {
		o.Vals[i] = uint64(x)
	}
	zzObs = append(zzObs, o)
}
func zzDumpObs() {
	if len(zzObs) > 0 {
		j, _ := json.Marshal(zzObs)
		fmt.Println("VERIF-OBS " + string(j))
	}
}
func vKnown(id string, c bool) bool {
	for _, k := range zzVec.Known {
		if k == id {
			return c
		}
	}
	return false
}
func vParam(name string, def int) int {
	if v, ok := zzVec.Params[name]; ok {
		return int(v)
	}
	return def
}
func vSymbolic() bool { return false }
func vAllocLimit(limit int) {
	var ms runtime.MemStats
	runtime.ReadMemStats(&ms)
	zzAllocBase, zzAllocLim, zzAllocOn = ms.TotalAlloc, limit, true
}
func vAllocBytes() int {
	var ms runtime.MemStats
	runtime.ReadMemStats(&ms)
	return int(ms.TotalAlloc - zzAllocBase)
}
func vAllocCheck() {
	if zzAllocOn && vAllocBytes() > zzAllocLim {
		panic(zzAssertFail{fmt.Sprintf("memory bounded by bytes supplied, not by claimed length (allocated %d, limit %d)", vAllocBytes(), zzAllocLim)})
	}
}
func vMaxDepth() int       { return 0 }
func vFmtPanics() int      { return 0 }
func vPoolMayDrop(on bool) {}
func vYield()              { runtime.Gosched() }
func vJitter()             { time.Sleep(time.Duration(time.Now().UnixNano()%7) * 150 * time.Microsecond) }
func vQuiesce()            { zzQuiesce() }
func vAdvance() bool       { return zzAdvance() }
func vNow() int64          { return zzNow() }
func vAutoAdvance(on bool) {}
func vPendingTimers() int  { return 0 }
func vLeaks() int          { return zzLeaks() }
func vHeld(mu *sync.Mutex) bool {
	if mu.TryLock() {
		mu.Unlock()
		return false
	}
	return true
}
func vRecovered() int { return 0 }

var zzTypeNames = map[int]string{}

func init() {
	for name, id := range datatype.Available {
		zzTypeNames[int(id)] = name
	}
}

// vAbstractDict builds a real dictionary realising the (key -> type) table of the counterexample.
func vAbstractDict() *dict.Parser {
	apps := map[uint32]*strings.Builder{}
	order := []uint32{}
	get := func(app uint32) *strings.Builder {
		if b, ok := apps[app]; ok {
			return b
		}
		b := &strings.Builder{}
		apps[app] = b
		order = append(order, app)
		return b
	}
	seen := map[string]bool{}
	for i, e := range zzVec.Dict {
		if e.Cmd {
			key := fmt.Sprintf("c%d/%d", e.App, e.Code)
			if seen[key] {
				continue
			}
			seen[key] = true
			b := get(e.App)
			fmt.Fprintf(b, `<command code="%d" short="XX" name="Abstract-Command"><request>`, e.Code)
			for k := 0; k < e.NReq; k++ {
				b.WriteString(`<rule avp="A" required="false"/>`)
			}
			b.WriteString(`</request><answer>`)
			for k := 0; k < e.NAns; k++ {
				b.WriteString(`<rule avp="A" required="false"/>`)
			}
			b.WriteString("</answer></command>\n")
			continue
		}
		if e.Type < 0 {
			continue
		}
		tname, ok := zzTypeNames[e.Type]
		if !ok {
			panic(zzDiverged{fmt.Sprintf("type id %d has no dictionary name", e.Type)})
		}
		if e.Name != "" {
			// a definition looked up by name: emitted under its name (several names may share a code)
			nkey := fmt.Sprintf("n%d/%s", e.App, e.Name)
			if seen[nkey] {
				continue
			}
			seen[nkey] = true
			fmt.Fprintf(get(e.App), `<avp name="%s" code="%d" must="M" vendor-id="%d"><data type="%s"/></avp>`+"\n", e.Name, e.Code, e.Vendor, tname)
			continue
		}
		key := fmt.Sprintf("a%d/%d/%d", e.App, e.Code, e.Vendor)
		if seen[key] {
			continue
		}
		seen[key] = true
		// a lookup by name elsewhere in the vector may denote the same definition: then that entry defines it
		named := false
		for _, o := range zzVec.Dict {
			if !o.Cmd && o.Type >= 0 && o.Name != "" && o.App == e.App && o.Code == e.Code && o.Vendor == e.Vendor {
				named = true
			}
		}
		if named {
			continue
		}
		fmt.Fprintf(get(e.App), `<avp name="A%d" code="%d" must="M" vendor-id="%d"><data type="%s"/></avp>`+"\n", i, e.Code, e.Vendor, tname)
	}
	var x bytes.Buffer
	x.WriteString("<?xml version=\"1.0\" encoding=\"UTF-8\"?>\n<diameter>\n")
	for _, app := range order {
		fmt.Fprintf(&x, "<application id=\"%d\" name=\"G%d\">\n%s</application>\n", app, app, apps[app].String())
	}
	x.WriteString("</diameter>\n")
	p, err := dict.NewParser()
	if err != nil {
		panic(err)
	}
	if len(order) > 0 {
		if err := p.Load(&x); err != nil {
			panic(zzDiverged{"generated dictionary does not load: " + err.Error()})
		}
	} else {
		p.Load(strings.NewReader("<diameter></diameter>"))
	}
	return p
}

// scheduler shims for native replay (sequential harnesses never call these)
// natively: quiescence is approximated by a short sleep, a logical-clock advance by sleeping one
// tick (harnesses use intervals that are multiples of zzTick)
const zzTick = 120 * time.Millisecond

var zzStart = time.Now()

func zzQuiesce() {
	for i := 0; i < 50; i++ {
		runtime.Gosched()
	}
	time.Sleep(8 * time.Millisecond)
}
func zzAdvance() bool { time.Sleep(zzTick + zzTick/4); return true }
func zzNow() int64    { return int64(time.Since(zzStart)) }

// vDictFile natively: the File is written out as dictionary XML and parsed by the real loader.
func vDictFile(f *dict.File) io.Reader {
	var b bytes.Buffer
	b.WriteString("<diameter>\n")
	for _, app := range f.App {
		fmt.Fprintf(&b, "<application id=\"%d\" type=%q name=%q>\n", app.ID, app.Type, app.Name)
		for _, c := range app.Command {
			fmt.Fprintf(&b, "<command code=\"%d\" short=%q name=%q><request><rule avp=\"A\"/></request><answer><rule avp=\"A\"/></answer></command>\n", c.Code, c.Short, c.Name)
		}
		for _, a := range app.AVP {
			fmt.Fprintf(&b, "<avp name=%q code=\"%d\" vendor-id=\"%d\"><data type=%q/></avp>\n", a.Name, a.Code, a.VendorID, a.Data.TypeName)
		}
		b.WriteString("</application>\n")
	}
	b.WriteString("</diameter>\n")
	_ = xml.Header
	return &b
}

// zzLeaks counts goroutines whose entry function belongs to the library (not to a harness).
func zzLeaks() int {
	time.Sleep(60 * time.Millisecond)
	buf := make([]byte, 1<<20)
	n := runtime.Stack(buf, true)
	count := 0
	for _, blk := range strings.Split(string(buf[:n]), "\n\n") {
		lines := strings.Split(blk, "\n")
		entry := ""
		for i := 1; i < len(lines); i++ {
			if strings.HasPrefix(lines[i], "created by ") {
				break
			}
			if !strings.HasPrefix(lines[i], "\t") {
				entry = lines[i]
			}
		}
		if strings.Contains(entry, "github.com/fiorix/go-diameter/v4/diam") && !strings.Contains(entry, "zz") && !strings.Contains(entry, "TestVerifReplay") {
			count++
		}
	}
	return count
}
