package diam

// C02: wire image vs an independent RFC 6733 reference codec.

// zzRef24 is the reference 24-bit big-endian encoding.
func zzRef24(n uint32) [3]byte { return [3]byte{byte(n >> 16), byte(n >> 8), byte(n)} }

// zzC02_header: header encode/decode against the reference layout, all field values.
func zzC02_header() {
	h := &Header{
		Version:       vU8("version"),
		MessageLength: vU32("len") & 0xffffff,
		CommandFlags:  vU8("flags"),
		CommandCode:   vU32("cmd") & 0xffffff,
		ApplicationID: vU32("app"),
		HopByHopID:    vU32("hbh"),
		EndToEndID:    vU32("e2e"),
	}
	b := h.Serialize()
	vAssert(len(b) == 20, "header is 20 bytes")
	ref := zzRefHeader(h.Version, h.MessageLength, h.CommandFlags, h.CommandCode, h.ApplicationID, h.HopByHopID, h.EndToEndID)
	for i := 0; i < 20; i++ {
		vAssert(b[i] == ref[i], "header byte matches RFC 6733 layout")
	}
	// decode direction: arbitrary 20 bytes
	raw := vBytes("raw", 20)
	d, err := DecodeHeader(raw)
	vAssert(err == nil, "20 bytes decode")
	vAssert(d.Version == raw[0], "version at 0")
	vAssert(d.MessageLength == uint32(raw[1])<<16|uint32(raw[2])<<8|uint32(raw[3]), "length at 1..3")
	vAssert(d.CommandFlags == raw[4], "flags at 4")
	vAssert(d.CommandCode == uint32(raw[5])<<16|uint32(raw[6])<<8|uint32(raw[7]), "code at 5..7")
	vAssert(d.ApplicationID == zzBE32(raw[8:12]), "app at 8")
	vAssert(d.HopByHopID == zzBE32(raw[12:16]), "hbh at 12")
	vAssert(d.EndToEndID == zzBE32(raw[16:20]), "e2e at 16")
	vReach("C02_header")
}
