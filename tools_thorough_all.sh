#!/bin/sh
# Development aid: run every thorough check (with a wall cap per harness) and print timing lines.
cd "$(dirname "$0")"
./setup.sh || exit 2
for p in ${@:-C01 C02 C03 C04 C05 C06 C07 C08 C09 C10 C11 C12 C13 C14 C15 C16 C17 C18 C19 C20}; do
  s=$(date +%s)
  ./check $p thorough --noevidence -p wall_s=${WALL:-2700} > /tmp/thorough_$p.log 2>&1
  rc=$?
  e=$(date +%s)
  echo "THOROUGH $p exit=$rc wall=$((e-s))s $(tail -1 /tmp/thorough_$p.log | cut -c1-120)"
  grep -E "^(INCONCLUSIVE|VIOLATION|KNOWN)" /tmp/thorough_$p.log | cut -c1-200 | head -4
done
