#!/bin/sh
# Build the symgo engine offline from /verif/engine.
set -e
cd "$(dirname "$0")/engine"
export GOFLAGS=-mod=mod GOPROXY=off GOSUMDB=off GOTOOLCHAIN=local
mkdir -p ../bin
go build -o ../bin/symgo ./cmd/symgo
