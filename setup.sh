#!/bin/sh
# Build the symgo engine offline from /verif/engine (golang.org/x/tools v0.29.0 from the module cache).
set -e
cd "$(dirname "$0")/engine"
export GOFLAGS=-mod=mod GOPROXY=off GOSUMDB=off GOTOOLCHAIN=local
mkdir -p ../bin ../evidence
go build -o ../bin/symgo .
