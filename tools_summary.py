#!/usr/bin/env python3
"""Print the per-property summary table (DESIGN section 7) from the evidence files written by the checks
and, if present, the timing lines of the last thorough sweep (thorough_times.txt)."""
import json, glob, os, re
thor = {}
if os.path.exists('/verif/thorough_times.txt'):
    for l in open('/verif/thorough_times.txt'):
        m = re.match(r'THOROUGH (C\d+) exit=(\d+) wall=(\d+)s .*paths=(\d+)', l)
        if m: thor[m.group(1)] = (int(m.group(2)), int(m.group(3)), int(m.group(4)))
def k(n): return f'{n/1000:.1f} k' if n >= 1000 else str(n)
print('| id | harnesses | quick: paths / obligations / solver queries / wall | thorough: paths / wall |')
print('|---|---|---|---|')
for f in sorted(glob.glob('/verif/evidence/C*.json')):
    e = json.load(open(f)); c = e['coverage']
    hs = ', '.join(dict.fromkeys(h['harness'].replace('zz', '') for h in c['harnesses']))
    q = c.get('queries', {})
    nq = sum(q.values()) if isinstance(q, dict) else q
    t = thor.get(e['property_id'])
    ts = f'{k(t[2])} / {t[1]} s' + ('' if t[0] == 0 else f' (exit {t[0]})') if t else ''
    print(f"| {e['property_id']} | {hs} | {k(c['evaluations'])} / {k(c['obligations'])} / {k(nq)} / {e['wall_s']:.0f} s | {ts} |")
