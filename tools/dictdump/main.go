// dictdump: native helper of the symgo engine.  Decodes dictionary XML texts with the real
// encoding/xml into /repo's current dict.File type and prints them as JSON (one per input).
// Input (stdin): JSON array of XML strings.  Output: JSON array of dict.File values.
package main

import (
	"encoding/json"
	"encoding/xml"
	"fmt"
	"os"
	"strings"

	"github.com/fiorix/go-diameter/v4/diam/dict"
)

type result struct {
	File *dict.File `json:"file"`
	Err  string     `json:"err,omitempty"`
}

func main() {
	var in []string
	if err := json.NewDecoder(os.Stdin).Decode(&in); err != nil {
		fmt.Fprintln(os.Stderr, err)
		os.Exit(2)
	}
	out := make([]result, len(in))
	for i, s := range in {
		f := new(dict.File)
		if err := xml.NewDecoder(strings.NewReader(s)).Decode(f); err != nil {
			out[i].Err = err.Error()
			continue
		}
		out[i].File = f
	}
	json.NewEncoder(os.Stdout).Encode(out)
}
