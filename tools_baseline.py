#!/usr/bin/env python3
"""Compare a `go test -json` log against /root/.vp/BASELINE.json stable_pass list."""
import json, sys
base = json.load(open('/root/.vp/BASELINE.json'))['stable_pass']
res = {}
for l in open(sys.argv[1]):
    try: e = json.loads(l)
    except Exception: continue
    if e.get('Test') and e.get('Action') in ('pass', 'fail', 'skip'):
        res[e['Package'] + '::' + e['Test']] = e['Action']
bad = [t for t in base if res.get(t) != 'pass']
print('baseline tests:', len(base), 'passing now:', len(base) - len(bad))
for t in bad: print('NOT PASSING:', t, res.get(t))
sys.exit(1 if bad else 0)
