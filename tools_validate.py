#!/opt/veriftools/pyvenv/bin/python3
"""Validate MANIFEST.json and every evidence file against the schemas."""
import json, sys, glob, jsonschema
ok = True
def v(path, schema):
    global ok
    try:
        jsonschema.validate(json.load(open(path)), json.load(open(schema)))
        print('valid  ', path)
    except Exception as e:
        ok = False
        print('INVALID', path, str(e)[:300])
v('/verif/MANIFEST.json', '/root/.vp/MANIFEST.schema.json')
for f in sorted(glob.glob('/verif/evidence/*.json')):
    v(f, '/root/.vp/EVIDENCE.schema.json')
sys.exit(0 if ok else 1)
