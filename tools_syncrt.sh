#!/bin/sh
# Copies the harness runtime (intrinsic declarations, native bodies, replay test) from package diam
# to the other harness packages, rewriting the package clause.
cd "$(dirname "$0")/harness/diam" || exit 1
for pkg in sm; do
  for f in zz_verif_rt.go zz_verif_rt_native.go zz_verif_replay_test.go zz_verif_transport.go; do
    sed "s/^package diam$/package $pkg/" "$f" > "$pkg/$f"
  done
done
