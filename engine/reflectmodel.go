package main

// Model of package reflect over go/types (DESIGN 2.8).  reflect's own
// implementation (unsafe pointers, runtime type descriptors) cannot be
// interpreted; struct shapes are concrete per harness, so reflection control
// flow is concrete while field values stay symbolic.

import (
	"go/types"
	"reflect"

	"golang.org/x/tools/go/ssa"
)

// A reflect.Value occupies 3 slots; the model keeps its state in slot 0.
func rvWrap(rv *RValue) Value { return Agg{rv, nil, nil} }

func rvOf(v Value) *RValue {
	if a, ok := v.(Agg); ok && len(a) > 0 {
		if rv, ok := a[0].(*RValue); ok {
			return rv
		}
	}
	return &RValue{}
}

func (it *Interp) rtypeIface(t types.Type) Value {
	if t == nil {
		return (*Iface)(nil)
	}
	return &Iface{typ: it.rtypeT(), val: &RType{t: it.canonT(t)}}
}

func kindOf(t types.Type) reflect.Kind {
	switch u := t.Underlying().(type) {
	case *types.Basic:
		switch u.Kind() {
		case types.Bool, types.UntypedBool:
			return reflect.Bool
		case types.Int:
			return reflect.Int
		case types.Int8:
			return reflect.Int8
		case types.Int16:
			return reflect.Int16
		case types.Int32:
			return reflect.Int32
		case types.Int64:
			return reflect.Int64
		case types.Uint:
			return reflect.Uint
		case types.Uint8:
			return reflect.Uint8
		case types.Uint16:
			return reflect.Uint16
		case types.Uint32:
			return reflect.Uint32
		case types.Uint64:
			return reflect.Uint64
		case types.Uintptr:
			return reflect.Uintptr
		case types.Float32:
			return reflect.Float32
		case types.Float64:
			return reflect.Float64
		case types.String:
			return reflect.String
		case types.UnsafePointer:
			return reflect.UnsafePointer
		}
	case *types.Array:
		return reflect.Array
	case *types.Chan:
		return reflect.Chan
	case *types.Signature:
		return reflect.Func
	case *types.Interface:
		return reflect.Interface
	case *types.Map:
		return reflect.Map
	case *types.Pointer:
		return reflect.Ptr
	case *types.Slice:
		return reflect.Slice
	case *types.Struct:
		return reflect.Struct
	}
	return reflect.Invalid
}

// get returns the current value held by rv.
func (it *Interp) rvGet(rv *RValue) Value {
	if rv.addr != nil {
		return it.load(rv.addr.obj, rv.addr.off, rv.t)
	}
	return rv.v
}

func (it *Interp) rvPanic(msg string) (Value, stepResult) {
	it.pendingPanic = "reflect: " + msg
	return nil, stOK
}

func init() {
	reg("reflect.ValueOf", func(it *Interp, g *G, fr *Frame, args []Value, site ssa.Instruction) (Value, stepResult) {
		iv, _ := args[0].(*Iface)
		if isNilValue(iv) {
			return rvWrap(&RValue{}), stOK
		}
		return rvWrap(&RValue{t: iv.typ, v: iv.val, valid: true}), stOK
	})
	reg("reflect.TypeOf", func(it *Interp, g *G, fr *Frame, args []Value, site ssa.Instruction) (Value, stepResult) {
		iv, _ := args[0].(*Iface)
		if isNilValue(iv) {
			return (*Iface)(nil), stOK
		}
		return it.rtypeIface(iv.typ), stOK
	})
	reg("reflect.Indirect", func(it *Interp, g *G, fr *Frame, args []Value, site ssa.Instruction) (Value, stepResult) {
		rv := rvOf(args[0])
		if !rv.valid || kindOf(rv.t) != reflect.Ptr {
			return args[0], stOK
		}
		return it.rvElem(rv)
	})
	reg("reflect.New", func(it *Interp, g *G, fr *Frame, args []Value, site ssa.Instruction) (Value, stepResult) {
		tv, _ := args[0].(*Iface)
		if isNilValue(tv) {
			return it.rvPanic("New(nil)")
		}
		t := tv.val.(*RType).t
		o := it.newTypedObj(t, "reflect.New "+t.String())
		it.ghostAlloc(int64(it.sizeofBytes(t)))
		return rvWrap(&RValue{t: it.canonT(types.NewPointer(t)), v: &Ptr{obj: o}, valid: true}), stOK
	})
	reg("reflect.MakeSlice", func(it *Interp, g *G, fr *Frame, args []Value, site ssa.Instruction) (Value, stepResult) {
		t := args[0].(*Iface).val.(*RType).t
		st, ok := t.Underlying().(*types.Slice)
		if !ok {
			return it.rvPanic("MakeSlice of non-slice type")
		}
		n := int(it.concretizeLimited(args[1].(*Term), "reflect.MakeSlice len", it.cfg.MaxAlloc))
		c := int(it.concretizeLimited(args[2].(*Term), "reflect.MakeSlice cap", it.cfg.MaxAlloc))
		if n > c {
			return it.rvPanic("MakeSlice: len > cap")
		}
		o := it.newArrayObj(st.Elem(), c, "reflect.MakeSlice")
		it.ghostAlloc(int64(c * it.sizeofBytes(st.Elem())))
		return rvWrap(&RValue{t: t, v: &Slice{obj: o, len: n, cap: c, esz: it.slots(st.Elem())}, valid: true}), stOK
	})
	reg("reflect.Zero", func(it *Interp, g *G, fr *Frame, args []Value, site ssa.Instruction) (Value, stepResult) {
		t := args[0].(*Iface).val.(*RType).t
		return rvWrap(&RValue{t: t, v: it.zero(t), valid: true}), stOK
	})

	// ---- Value methods ----
	reg("(reflect.Value).Kind", func(it *Interp, g *G, fr *Frame, args []Value, site ssa.Instruction) (Value, stepResult) {
		rv := rvOf(args[0])
		if !rv.valid {
			return it.ts.Const(64, 0), stOK
		}
		return it.ts.Const(64, uint64(kindOf(rv.t))), stOK
	})
	reg("(reflect.Value).IsValid", func(it *Interp, g *G, fr *Frame, args []Value, site ssa.Instruction) (Value, stepResult) {
		return it.ts.Bool(rvOf(args[0]).valid), stOK
	})
	reg("(reflect.Value).Type", func(it *Interp, g *G, fr *Frame, args []Value, site ssa.Instruction) (Value, stepResult) {
		rv := rvOf(args[0])
		if !rv.valid {
			return it.rvPanic("call of reflect.Value.Type on zero Value")
		}
		return it.rtypeIface(rv.t), stOK
	})
	reg("(reflect.Value).Elem", func(it *Interp, g *G, fr *Frame, args []Value, site ssa.Instruction) (Value, stepResult) {
		return it.rvElem(rvOf(args[0]))
	})
	reg("(reflect.Value).NumField", func(it *Interp, g *G, fr *Frame, args []Value, site ssa.Instruction) (Value, stepResult) {
		rv := rvOf(args[0])
		st, ok := rv.t.Underlying().(*types.Struct)
		if !rv.valid || !ok {
			return it.rvPanic("NumField of non-struct")
		}
		return it.ts.Const(64, uint64(st.NumFields())), stOK
	})
	reg("(reflect.Value).Field", func(it *Interp, g *G, fr *Frame, args []Value, site ssa.Instruction) (Value, stepResult) {
		rv := rvOf(args[0])
		if !rv.valid {
			return it.rvPanic("Field of zero Value")
		}
		st, ok := rv.t.Underlying().(*types.Struct)
		if !ok {
			return it.rvPanic("Field of non-struct type " + rv.t.String())
		}
		i := int(it.concretize(args[1].(*Term), "reflect Field index"))
		if i < 0 || i >= st.NumFields() {
			return it.rvPanic("Field index out of range")
		}
		ft := st.Field(i).Type()
		off := it.fieldOff(st, i)
		// reflect's rule: sticky RO is inherited; an unexported field adds sticky RO, unless it is
		// embedded, in which case only the field itself is RO (its exported fields are not)
		sticky, embed := rv.ro, false
		if !st.Field(i).Exported() {
			if st.Field(i).Embedded() {
				embed = true
			} else {
				sticky = true
			}
		}
		if rv.addr != nil {
			return rvWrap(&RValue{t: ft, addr: &Ptr{obj: rv.addr.obj, off: rv.addr.off + off}, valid: true, ro: sticky, ero: embed}), stOK
		}
		agg := rv.v.(Agg)
		var fv Value
		if isAggType(ft) {
			fv = Agg(append([]Value(nil), agg[off:off+it.slots(ft)]...))
		} else {
			fv = agg[off]
		}
		return rvWrap(&RValue{t: ft, v: fv, valid: true, ro: sticky, ero: embed}), stOK
	})
	reg("(reflect.Value).Len", func(it *Interp, g *G, fr *Frame, args []Value, site ssa.Instruction) (Value, stepResult) {
		rv := rvOf(args[0])
		if !rv.valid {
			return it.rvPanic("Len of zero Value")
		}
		v := it.rvGet(rv)
		switch x := v.(type) {
		case *Slice:
			if isNilValue(x) {
				return it.ts.Const(64, 0), stOK
			}
			return it.ts.Const(64, uint64(x.len)), stOK
		case *Str:
			return it.ts.Const(64, uint64(x.Len())), stOK
		case *MapV:
			if isNilValue(x) {
				return it.ts.Const(64, 0), stOK
			}
			return it.ts.Const(64, uint64(x.m.liveLen())), stOK
		case Agg:
			if at, ok := rv.t.Underlying().(*types.Array); ok {
				return it.ts.Const(64, uint64(at.Len())), stOK
			}
		}
		return it.rvPanic("Len of " + rv.t.String())
	})
	reg("(reflect.Value).Index", func(it *Interp, g *G, fr *Frame, args []Value, site ssa.Instruction) (Value, stepResult) {
		rv := rvOf(args[0])
		if !rv.valid {
			return it.rvPanic("Index of zero Value")
		}
		i := int(it.concretize(args[1].(*Term), "reflect Index"))
		switch u := rv.t.Underlying().(type) {
		case *types.Slice:
			s, _ := it.rvGet(rv).(*Slice)
			if isNilValue(s) || i < 0 || i >= s.len {
				return it.rvPanic("slice index out of range")
			}
			return rvWrap(&RValue{t: u.Elem(), addr: &Ptr{obj: s.obj, off: s.off + i*s.esz}, valid: true}), stOK
		case *types.Array:
			if i < 0 || i >= int(u.Len()) {
				return it.rvPanic("array index out of range")
			}
			es := it.slots(u.Elem())
			if rv.addr != nil {
				return rvWrap(&RValue{t: u.Elem(), addr: &Ptr{obj: rv.addr.obj, off: rv.addr.off + i*es}, valid: true}), stOK
			}
			agg := rv.v.(Agg)
			if isAggType(u.Elem()) {
				return rvWrap(&RValue{t: u.Elem(), v: Agg(append([]Value(nil), agg[i*es:(i+1)*es]...)), valid: true}), stOK
			}
			return rvWrap(&RValue{t: u.Elem(), v: agg[i], valid: true}), stOK
		}
		return it.rvPanic("Index of " + rv.t.String())
	})
	reg("(reflect.Value).IsNil", func(it *Interp, g *G, fr *Frame, args []Value, site ssa.Instruction) (Value, stepResult) {
		rv := rvOf(args[0])
		if !rv.valid {
			return it.rvPanic("IsNil of zero Value")
		}
		switch kindOf(rv.t) {
		case reflect.Ptr, reflect.Slice, reflect.Map, reflect.Interface, reflect.Func, reflect.Chan, reflect.UnsafePointer:
			return it.ts.Bool(isNilValue(it.rvGet(rv))), stOK
		}
		return it.rvPanic("IsNil of " + rv.t.String())
	})
	reg("(reflect.Value).Bool", func(it *Interp, g *G, fr *Frame, args []Value, site ssa.Instruction) (Value, stepResult) {
		rv := rvOf(args[0])
		if !rv.valid || kindOf(rv.t) != reflect.Bool {
			return it.rvPanic("Bool of non-bool")
		}
		return it.rvGet(rv), stOK
	})
	reg("(reflect.Value).Int", func(it *Interp, g *G, fr *Frame, args []Value, site ssa.Instruction) (Value, stepResult) {
		rv := rvOf(args[0])
		if !rv.valid {
			return it.rvPanic("Int of zero Value")
		}
		switch kindOf(rv.t) {
		case reflect.Int, reflect.Int8, reflect.Int16, reflect.Int32, reflect.Int64:
			return it.ts.Sext(it.rvGet(rv).(*Term), 64), stOK
		}
		return it.rvPanic("Int of " + rv.t.String())
	})
	reg("(reflect.Value).Uint", func(it *Interp, g *G, fr *Frame, args []Value, site ssa.Instruction) (Value, stepResult) {
		rv := rvOf(args[0])
		if !rv.valid {
			return it.rvPanic("Uint of zero Value")
		}
		switch kindOf(rv.t) {
		case reflect.Uint, reflect.Uint8, reflect.Uint16, reflect.Uint32, reflect.Uint64, reflect.Uintptr:
			return it.ts.Zext(it.rvGet(rv).(*Term), 64), stOK
		}
		return it.rvPanic("Uint of " + rv.t.String())
	})
	reg("(reflect.Value).Float", func(it *Interp, g *G, fr *Frame, args []Value, site ssa.Instruction) (Value, stepResult) {
		rv := rvOf(args[0])
		if !rv.valid {
			return it.rvPanic("Float of zero Value")
		}
		t := it.rvGet(rv).(*Term)
		switch kindOf(rv.t) {
		case reflect.Float64:
			return t, stOK
		case reflect.Float32:
			// only used for comparison with zero: a 64-bit pattern that is +-0 exactly when the float32 is
			return it.ts.Concat(t, it.ts.Const(32, 0)), stOK
		}
		return it.rvPanic("Float of " + rv.t.String())
	})
	reg("(reflect.Value).String", func(it *Interp, g *G, fr *Frame, args []Value, site ssa.Instruction) (Value, stepResult) {
		rv := rvOf(args[0])
		if rv.valid && kindOf(rv.t) == reflect.String {
			return it.rvGet(rv), stOK
		}
		return concStr("<reflect.Value>"), stOK
	})
	reg("(reflect.Value).CanSet", func(it *Interp, g *G, fr *Frame, args []Value, site ssa.Instruction) (Value, stepResult) {
		rv := rvOf(args[0])
		return it.ts.Bool(rv.valid && rv.addr != nil && !rv.ro && !rv.ero), stOK
	})
	reg("(reflect.Value).CanAddr", func(it *Interp, g *G, fr *Frame, args []Value, site ssa.Instruction) (Value, stepResult) {
		rv := rvOf(args[0])
		return it.ts.Bool(rv.valid && rv.addr != nil), stOK
	})
	reg("(reflect.Value).Set", func(it *Interp, g *G, fr *Frame, args []Value, site ssa.Instruction) (Value, stepResult) {
		rv, x := rvOf(args[0]), rvOf(args[1])
		if !rv.valid || rv.addr == nil {
			return it.rvPanic("reflect.Value.Set using unaddressable value")
		}
		if rv.ro || rv.ero {
			return it.rvPanic("reflect.Value.Set using value obtained using unexported field")
		}
		if !x.valid {
			return it.rvPanic("reflect.Set: value of type nil is not assignable")
		}
		if !types.AssignableTo(x.t, rv.t) {
			return it.rvPanic("reflect.Set: value of type " + x.t.String() + " is not assignable to type " + rv.t.String())
		}
		val := it.rvGet(x)
		if _, isI := rv.t.Underlying().(*types.Interface); isI {
			if _, xI := x.t.Underlying().(*types.Interface); !xI {
				val = &Iface{typ: it.canonT(x.t), val: val}
			}
		}
		it.store(rv.addr.obj, rv.addr.off, rv.t, val)
		return nil, stOK
	})
	reg("(reflect.Value).Convert", func(it *Interp, g *G, fr *Frame, args []Value, site ssa.Instruction) (Value, stepResult) {
		rv := rvOf(args[0])
		t := args[1].(*Iface).val.(*RType).t
		if !rv.valid {
			return it.rvPanic("Convert of zero Value")
		}
		if !types.ConvertibleTo(rv.t, t) {
			return it.rvPanic("reflect.Value.Convert: value of type " + rv.t.String() + " cannot be converted to type " + t.String())
		}
		v := it.rvGet(rv)
		_, fromI := rv.t.Underlying().(*types.Interface)
		_, toI := t.Underlying().(*types.Interface)
		switch {
		case toI && !fromI:
			v = &Iface{typ: it.canonT(rv.t), val: v}
		case toI && fromI:
		default:
			v = it.convert(v, rv.t, t)
		}
		return rvWrap(&RValue{t: t, v: v, valid: true}), stOK
	})
	reg("(reflect.Value).Interface", func(it *Interp, g *G, fr *Frame, args []Value, site ssa.Instruction) (Value, stepResult) {
		rv := rvOf(args[0])
		if !rv.valid {
			return it.rvPanic("reflect.Value.Interface of zero Value")
		}
		if rv.ro || rv.ero {
			return it.rvPanic("reflect.Value.Interface: cannot return value obtained from unexported field or method")
		}
		v := it.rvGet(rv)
		if _, isI := rv.t.Underlying().(*types.Interface); isI {
			return v, stOK
		}
		return &Iface{typ: it.canonT(rv.t), val: v}, stOK
	})
	reg("(reflect.Value).Addr", func(it *Interp, g *G, fr *Frame, args []Value, site ssa.Instruction) (Value, stepResult) {
		rv := rvOf(args[0])
		if !rv.valid || rv.addr == nil {
			return it.rvPanic("reflect.Value.Addr of unaddressable value")
		}
		return rvWrap(&RValue{t: it.canonT(types.NewPointer(rv.t)), v: rv.addr, valid: true}), stOK
	})

	// ---- Type methods (invoked on the reflect.Type interface) ----
	reg("reflect.Type.Kind", func(it *Interp, g *G, fr *Frame, args []Value, site ssa.Instruction) (Value, stepResult) {
		return it.ts.Const(64, uint64(kindOf(args[0].(*RType).t))), stOK
	})
	reg("reflect.Type.NumField", func(it *Interp, g *G, fr *Frame, args []Value, site ssa.Instruction) (Value, stepResult) {
		st, ok := args[0].(*RType).t.Underlying().(*types.Struct)
		if !ok {
			return it.rvPanic("NumField of non-struct type")
		}
		return it.ts.Const(64, uint64(st.NumFields())), stOK
	})
	reg("reflect.Type.Field", func(it *Interp, g *G, fr *Frame, args []Value, site ssa.Instruction) (Value, stepResult) {
		t := args[0].(*RType).t
		st, ok := t.Underlying().(*types.Struct)
		if !ok {
			return it.rvPanic("Field of non-struct type")
		}
		i := int(it.concretize(args[1].(*Term), "reflect Type.Field index"))
		if i < 0 || i >= st.NumFields() {
			return it.rvPanic("Field index out of bounds")
		}
		f := st.Field(i)
		rp := it.P.pkgs["reflect"]
		sft := rp.Type("StructField").Type()
		sst := sft.Underlying().(*types.Struct)
		a := it.zero(sft).(Agg)
		for k := 0; k < sst.NumFields(); k++ {
			off := it.fieldOff(sst, k)
			switch sst.Field(k).Name() {
			case "Name":
				a[off] = concStr(f.Name())
			case "PkgPath":
				if !f.Exported() && f.Pkg() != nil {
					a[off] = concStr(f.Pkg().Path())
				}
			case "Type":
				a[off] = it.rtypeIface(f.Type())
			case "Tag":
				a[off] = concStr(st.Tag(i))
			case "Anonymous":
				a[off] = it.ts.Bool(f.Embedded())
			}
		}
		return a, stOK
	})
	reg("reflect.Type.AssignableTo", func(it *Interp, g *G, fr *Frame, args []Value, site ssa.Instruction) (Value, stepResult) {
		u, _ := args[1].(*Iface)
		if isNilValue(u) {
			return it.rvPanic("reflect: nil type passed to Type.AssignableTo")
		}
		return it.ts.Bool(types.AssignableTo(args[0].(*RType).t, u.val.(*RType).t)), stOK
	})
	reg("reflect.Type.ConvertibleTo", func(it *Interp, g *G, fr *Frame, args []Value, site ssa.Instruction) (Value, stepResult) {
		u, _ := args[1].(*Iface)
		if isNilValue(u) {
			return it.rvPanic("reflect: nil type passed to Type.ConvertibleTo")
		}
		return it.ts.Bool(types.ConvertibleTo(args[0].(*RType).t, u.val.(*RType).t)), stOK
	})
	reg("reflect.Type.Implements", func(it *Interp, g *G, fr *Frame, args []Value, site ssa.Instruction) (Value, stepResult) {
		u := args[1].(*Iface).val.(*RType).t
		iface, ok := u.Underlying().(*types.Interface)
		if !ok {
			return it.rvPanic("reflect: non-interface type passed to Type.Implements")
		}
		return it.ts.Bool(types.Implements(args[0].(*RType).t, iface)), stOK
	})
	reg("reflect.Type.Name", func(it *Interp, g *G, fr *Frame, args []Value, site ssa.Instruction) (Value, stepResult) {
		if n, ok := args[0].(*RType).t.(*types.Named); ok {
			return concStr(n.Obj().Name()), stOK
		}
		if b, ok := args[0].(*RType).t.(*types.Basic); ok {
			return concStr(b.Name()), stOK
		}
		return concStr(""), stOK
	})
	reg("(reflect.StructTag).Get", func(it *Interp, g *G, fr *Frame, args []Value, site ssa.Instruction) (Value, stepResult) {
		tag, key := args[0].(*Str), args[1].(*Str)
		if !tag.IsConc() || !key.IsConc() {
			it.unsupported("symbolic struct tag")
		}
		return concStr(reflect.StructTag(tag.conc).Get(key.conc)), stOK
	})
	reg("(reflect.StructTag).Lookup", func(it *Interp, g *G, fr *Frame, args []Value, site ssa.Instruction) (Value, stepResult) {
		tag, key := args[0].(*Str), args[1].(*Str)
		v, ok := reflect.StructTag(tag.conc).Lookup(key.conc)
		return Tuple{concStr(v), it.ts.Bool(ok)}, stOK
	})
	reg("(reflect.Kind).String", func(it *Interp, g *G, fr *Frame, args []Value, site ssa.Instruction) (Value, stepResult) {
		t := args[0].(*Term)
		if t.IsConst() {
			return concStr(reflect.Kind(t.Val).String()), stOK
		}
		return concStr("<kind>"), stOK
	})
}

func (it *Interp) rvElem(rv *RValue) (Value, stepResult) {
	if !rv.valid {
		return it.rvPanic("call of reflect.Value.Elem on zero Value")
	}
	switch u := rv.t.Underlying().(type) {
	case *types.Pointer:
		p, _ := it.rvGet(rv).(*Ptr)
		if isNilValue(p) {
			return rvWrap(&RValue{}), stOK
		}
		return rvWrap(&RValue{t: u.Elem(), addr: p, valid: true, ro: rv.ro}), stOK
	case *types.Interface:
		iv, _ := it.rvGet(rv).(*Iface)
		if isNilValue(iv) {
			return rvWrap(&RValue{}), stOK
		}
		return rvWrap(&RValue{t: iv.typ, v: iv.val, valid: true, ro: rv.ro}), stOK
	}
	return it.rvPanic("call of reflect.Value.Elem on " + rv.t.String() + " Value")
}
