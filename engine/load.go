package main

// Front end: load /repo's current source (plus harness overlay files) with
// go/packages, build SSA for everything including the standard library.

import (
	"crypto/sha256"
	"encoding/hex"
	"fmt"
	"go/types"
	"os"
	"path/filepath"
	"sort"
	"strings"

	"golang.org/x/tools/go/packages"
	"golang.org/x/tools/go/ssa"
	"golang.org/x/tools/go/ssa/ssautil"
)

// droppedHarness: harness files left out of this run because they do not compile against the tree (base name -> first error)
var droppedHarness = map[string]string{}

// isPropertyHarness: zz_verif_c<NN>*.go hold the harnesses of one property; the shared runtime, utility
// and transport files are never dropped
func isPropertyHarness(base string) bool {
	return strings.HasPrefix(base, "zz_verif_c") && len(base) > 11 && base[10] >= '0' && base[10] <= '9'
}

const repoModule = "github.com/fiorix/go-diameter/v4"

type Program struct {
	prog     *ssa.Program
	pkgs     map[string]*ssa.Package // by import path
	ppkgs    map[string]*packages.Package
	repoDir  string
	overlay  map[string][]byte
	srcHash  map[string]string // file -> sha256 (for evidence)
	initDeps []string
}

// harnessFiles maps package dir (relative to repo, e.g. "diam") to harness source files.
func LoadProgram(repoDir, harnessDir string, patterns []string) (*Program, error) {
	overlay := map[string][]byte{}
	// every file in harnessDir/<pkgdir>/*.go except *_native.go and *_test.go is injected
	var err error
	for _, dir := range []string{harnessDir, genDir} {
		if dir == "" {
			continue
		}
		dir := dir
		err = filepath.Walk(dir, func(p string, info os.FileInfo, err error) error {
			if err != nil {
				return err
			}
			if info.IsDir() || !strings.HasSuffix(p, ".go") {
				return nil
			}
			if strings.HasSuffix(p, "_native.go") || strings.HasSuffix(p, "_test.go") {
				return nil
			}
			if dir == harnessDir && strings.HasPrefix(filepath.Base(p), "zz_verif_gen_") {
				return nil // stale generated file of an older layout
			}
			rel, _ := filepath.Rel(dir, p)
			data, err := os.ReadFile(p)
			if err != nil {
				return err
			}
			overlay[filepath.Join(repoDir, rel)] = data
			return nil
		})
		if err != nil {
			return nil, err
		}
	}
	cfg := &packages.Config{
		Mode:    packages.LoadAllSyntax,
		Dir:     repoDir,
		Overlay: overlay,
		Env:     append(os.Environ(), "GOFLAGS=-mod=mod", "GOPROXY=off", "GOSUMDB=off", "GOTOOLCHAIN=local", "CGO_ENABLED=0"),
	}
	// A harness file that no longer compiles against the tree under test (it reaches into unexported
	// parts of the package, which a refactoring may rename) is dropped, together with the files that
	// depend on it, so that the other properties' harnesses keep working; the property whose harness
	// was dropped reports inconclusive with the compile error.
	var initial []*packages.Package
	for round := 0; ; round++ {
		var err error
		initial, err = packages.Load(cfg, patterns...)
		if err != nil {
			return nil, err
		}
		var errs []string
		dropped := false
		packages.Visit(initial, nil, func(p *packages.Package) {
			for _, e := range p.Errors {
				errs = append(errs, e.Error())
				file := e.Pos
				if i := strings.Index(file, ".go:"); i >= 0 {
					file = file[:i+3]
				}
				base := filepath.Base(file)
				if _, isOverlay := overlay[file]; isOverlay && isPropertyHarness(base) && round < 12 {
					delete(overlay, file)
					if _, seen := droppedHarness[base]; !seen {
						droppedHarness[base] = e.Error()
					}
					dropped = true
				}
			}
		})
		if len(errs) == 0 {
			break
		}
		if !dropped {
			return nil, fmt.Errorf("load errors:\n%s", strings.Join(errs, "\n"))
		}
		cfg.Overlay = overlay
	}
	prog, _ := ssautil.AllPackages(initial, ssa.InstantiateGenerics)
	prog.Build()
	P := &Program{prog: prog, pkgs: map[string]*ssa.Package{}, ppkgs: map[string]*packages.Package{}, repoDir: repoDir, overlay: overlay, srcHash: map[string]string{}}
	packages.Visit(initial, nil, func(p *packages.Package) {
		P.ppkgs[p.PkgPath] = p
		if sp := prog.Package(p.Types); sp != nil {
			P.pkgs[p.PkgPath] = sp
		}
	})
	return P, nil
}

func (P *Program) fileHash(path string) string {
	if h, ok := P.srcHash[path]; ok {
		return h
	}
	data, ok := P.overlay[path]
	if !ok {
		var err error
		data, err = os.ReadFile(path)
		if err != nil {
			return ""
		}
	}
	s := sha256.Sum256(data)
	h := hex.EncodeToString(s[:8])
	P.srcHash[path] = h
	return h
}

// Func finds a package-level function or method by "pkgpath.Name" or "pkgpath.(*T).M".
func (P *Program) Func(pkgPath, name string) *ssa.Function {
	p := P.pkgs[pkgPath]
	if p == nil {
		return nil
	}
	return p.Func(name)
}

func (P *Program) Method(pkgPath, typeName string, ptr bool, method string) *ssa.Function {
	p := P.pkgs[pkgPath]
	if p == nil {
		return nil
	}
	tn := p.Type(typeName)
	if tn == nil {
		return nil
	}
	var t types.Type = tn.Type()
	if ptr {
		t = types.NewPointer(t)
	}
	sel := P.prog.MethodSets.MethodSet(t).Lookup(p.Pkg, method)
	if sel == nil {
		return nil
	}
	return P.prog.MethodValue(sel)
}

// repoPkgInitOrder returns import paths of repo packages reachable from roots in dependency order.
func (P *Program) initOrder(roots []string, include func(path string) bool) []string {
	var order []string
	seen := map[string]bool{}
	var visit func(path string)
	visit = func(path string) {
		if seen[path] {
			return
		}
		seen[path] = true
		pp := P.ppkgs[path]
		if pp == nil {
			return
		}
		imps := make([]string, 0, len(pp.Imports))
		for ip := range pp.Imports {
			imps = append(imps, ip)
		}
		sort.Strings(imps)
		for _, ip := range imps {
			visit(pp.Imports[ip].PkgPath)
		}
		if include(path) {
			order = append(order, path)
		}
	}
	for _, r := range roots {
		visit(r)
	}
	return order
}

func isRepoPkg(path string) bool { return strings.HasPrefix(path, repoModule) }
