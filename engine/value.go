package main

// Runtime values of the symbolic interpreter.
//
// Scalars are *Term.  Memory is a set of objects, each a flat vector of slots;
// a struct/array occupies consecutive slots (one per scalar leaf).  Composite
// values in registers are Agg (flattened the same way).

import (
	"fmt"
	"go/types"

	"golang.org/x/tools/go/ssa"
)

type Value interface{}

// Agg is a flattened composite (struct or array) value.
type Agg []Value

// Obj is a heap object.
type Obj struct {
	id           int
	cells        []Value
	sparse       map[int]Value // used when cells == nil (large zero objects)
	size         int
	zero         Value // default for sparse
	pre          bool  // allocated before the current path started (undo-logged)
	label        string
	roData       bool
	abstractDict bool
}

type Ptr struct {
	obj *Obj
	off int
}

// Slice: obj==nil means nil slice. elemSlots = slots per element.
type Slice struct {
	obj      *Obj
	off      int // slot offset of element 0
	len, cap int
	esz      int
}

// Str is an immutable string: concrete Go string or symbolic byte cells.
type Str struct {
	conc  string
	cells []*Term // non-nil => symbolic (len(cells) is the length)
	// view != nil: the string was made by unsafe.String over live memory; cells is the snapshot taken
	// when the value was last evaluated (eval refreshes it on every use)
	view *Slice
}

func (s *Str) Len() int {
	if s.cells != nil {
		return len(s.cells)
	}
	return len(s.conc)
}
func (s *Str) IsConc() bool { return s.cells == nil }

type Iface struct {
	typ types.Type // nil => nil interface
	val Value
}

type MapV struct{ m *MapObj } // m==nil: nil map

type MapObj struct {
	id      int
	keyT    types.Type
	valT    types.Type
	entries []mapEntry
	index   map[string]int // canonical concrete key -> entry index
	pre     bool
	hasSym  bool
}

type mapEntry struct {
	k, v    Value
	ckey    string // canonical key if concrete
	conc    bool
	deleted bool
}

type ChanV struct{ c *ChanObj }

type ChanObj struct {
	id     int
	cap    int
	buf    []Value
	closed bool
	pre    bool
	elemT  types.Type
	q      *chanQ
}

type FuncV struct {
	fn    *ssa.Function
	free  []Value
	intr  string // intrinsic name when fn has no body
	bound Value  // receiver for bound-method closures ($bound handled by ssa)
}

type Tuple []Value

// PoolV is the engine state of a sync.Pool (stored in the pool's first slot).
type PoolV struct{ items []Value }

// UnsafePtr wraps a pointer reinterpretation (func-value idiom in SCTPConn).
type UnsafePtr struct{ v Value }

// RangeIter is the state of a Range instruction.
type RangeIter struct {
	isMap bool
	keys  []Value
	vals  []Value
	str   *Str
	pos   int
}

// reflect model values
type RType struct{ t types.Type }

type RValue struct {
	t     types.Type
	v     Value // the value (for non-addressable) ...
	addr  *Ptr  // ... or its address (addressable / settable)
	valid bool
	ro    bool // sticky read-only: obtained through an unexported non-embedded field
	ero   bool // obtained through an unexported embedded field (not inherited by its exported fields)
}

func isNilValue(v Value) bool {
	switch x := v.(type) {
	case nil:
		return true
	case *Ptr:
		return x == nil || x.obj == nil
	case *Slice:
		return x == nil || x.obj == nil
	case *Iface:
		return x == nil || x.typ == nil
	case *MapV:
		return x == nil || x.m == nil
	case *ChanV:
		return x == nil || x.c == nil
	case *FuncV:
		return x == nil || (x.fn == nil && x.intr == "")
	case *UnsafePtr:
		return x == nil || isNilValue(x.v)
	}
	return false
}

// ---- type layout ----

type Layout struct {
	w *World
}

func (w *World) slots(t types.Type) int {
	if n, ok := w.slotCache[t]; ok {
		return n
	}
	var n int
	switch u := t.Underlying().(type) {
	case *types.Struct:
		for i := 0; i < u.NumFields(); i++ {
			n += w.slots(u.Field(i).Type())
		}
	case *types.Array:
		n = int(u.Len()) * w.slots(u.Elem())
	case *types.Tuple:
		n = 1
	default:
		n = 1
	}
	w.slotCache[t] = n
	return n
}

func (w *World) fieldOff(st *types.Struct, idx int) int {
	off := 0
	for i := 0; i < idx; i++ {
		off += w.slots(st.Field(i).Type())
	}
	return off
}

func isAggType(t types.Type) bool {
	switch t.Underlying().(type) {
	case *types.Struct, *types.Array:
		return true
	}
	return false
}

// intWidth returns the bit width and signedness of a basic integer-like type.
func intWidth(t types.Type) (uint8, bool, bool) {
	b, ok := t.Underlying().(*types.Basic)
	if !ok {
		return 0, false, false
	}
	switch b.Kind() {
	case types.Bool, types.UntypedBool:
		return 0, false, true
	case types.Int8:
		return 8, true, true
	case types.Int16:
		return 16, true, true
	case types.Int32, types.UntypedRune:
		return 32, true, true
	case types.Int64, types.Int, types.UntypedInt:
		return 64, true, true
	case types.Uint8:
		return 8, false, true
	case types.Uint16:
		return 16, false, true
	case types.Uint32:
		return 32, false, true
	case types.Uint64, types.Uint, types.Uintptr:
		return 64, false, true
	case types.Float32:
		return 32, false, true
	case types.Float64, types.UntypedFloat:
		return 64, false, true
	}
	return 0, false, false
}

func isFloat(t types.Type) bool {
	b, ok := t.Underlying().(*types.Basic)
	return ok && b.Info()&types.IsFloat != 0
}

func isString(t types.Type) bool {
	b, ok := t.Underlying().(*types.Basic)
	return ok && b.Info()&types.IsString != 0
}

// zero returns the zero value of t (flattened Agg for composites).
func (w *World) zero(t types.Type) Value {
	switch u := t.Underlying().(type) {
	case *types.Basic:
		if u.Info()&types.IsString != 0 {
			return emptyStr
		}
		if u.Kind() == types.UnsafePointer {
			return (*UnsafePtr)(nil)
		}
		wd, _, ok := intWidth(t)
		if !ok {
			if u.Kind() == types.UntypedNil {
				return nil
			}
			panic(fmt.Sprintf("zero: unsupported basic %s", t))
		}
		return w.ts.Const(wd, 0)
	case *types.Pointer:
		return (*Ptr)(nil)
	case *types.Slice:
		return (*Slice)(nil)
	case *types.Interface:
		return (*Iface)(nil)
	case *types.Map:
		return (*MapV)(nil)
	case *types.Chan:
		return (*ChanV)(nil)
	case *types.Signature:
		return (*FuncV)(nil)
	case *types.Struct, *types.Array:
		n := w.slots(t)
		a := make(Agg, n)
		w.fillZero(a, t)
		return a
	case *types.Tuple:
		tu := make(Tuple, u.Len())
		for i := range tu {
			tu[i] = w.zero(u.At(i).Type())
		}
		return tu
	}
	panic(fmt.Sprintf("zero: unsupported type %s", t))
}

func (w *World) fillZero(dst []Value, t types.Type) {
	switch u := t.Underlying().(type) {
	case *types.Struct:
		off := 0
		for i := 0; i < u.NumFields(); i++ {
			ft := u.Field(i).Type()
			n := w.slots(ft)
			w.fillZero(dst[off:off+n], ft)
			off += n
		}
	case *types.Array:
		es := w.slots(u.Elem())
		if es == 1 && !isAggType(u.Elem()) {
			z := w.zero(u.Elem())
			for i := range dst {
				dst[i] = z
			}
			return
		}
		for i := 0; i < int(u.Len()); i++ {
			w.fillZero(dst[i*es:(i+1)*es], u.Elem())
		}
	default:
		dst[0] = w.zero(t)
	}
}

var emptyStr = &Str{}

func concStr(s string) *Str { return &Str{conc: s} }

// ---- object access ----

const sparseThreshold = 600

func (w *World) newObj(n int, label string) *Obj {
	w.nextObj++
	o := &Obj{id: w.nextObj, size: n, label: label, pre: !w.inPath}
	o.cells = make([]Value, n)
	w.allocSlots += int64(n)
	return o
}

// newArrayObj allocates n elements of type et, zero filled (sparse when large and scalar).
func (w *World) newArrayObj(et types.Type, n int, label string) *Obj {
	es := w.slots(et)
	if n*es > sparseThreshold && es == 1 && !isAggType(et) {
		w.nextObj++
		w.allocSlots += int64(n)
		return &Obj{id: w.nextObj, size: n, sparse: map[int]Value{}, zero: w.zero(et), label: label, pre: !w.inPath}
	}
	o := w.newObj(n*es, label)
	if es == 1 && !isAggType(et) {
		z := w.zero(et)
		for i := range o.cells {
			o.cells[i] = z
		}
	} else {
		for i := 0; i < n; i++ {
			w.fillZero(o.cells[i*es:(i+1)*es], et)
		}
	}
	return o
}

func (w *World) newTypedObj(t types.Type, label string) *Obj {
	n := w.slots(t)
	if arr, ok := t.Underlying().(*types.Array); ok {
		return w.newArrayObj(arr.Elem(), int(arr.Len()), label)
	}
	o := w.newObj(n, label)
	w.fillZero(o.cells, t)
	return o
}

func (o *Obj) get(i int) Value {
	if i < 0 || i >= o.size {
		panic(fmt.Sprintf("engine: object %d(%s) slot %d out of range %d", o.id, o.label, i, o.size))
	}
	if o.cells != nil {
		return o.cells[i]
	}
	if v, ok := o.sparse[i]; ok {
		return v
	}
	return o.zero
}

type undoRec struct {
	obj  *Obj
	idx  int
	old  Value
	had  bool
	mobj *MapObj
	ment []mapEntry
	mhas bool
	cobj *ChanObj
	cbuf []Value
	ccl  bool
}

func (w *World) set(o *Obj, i int, v Value) {
	if i < 0 || i >= o.size {
		panic(fmt.Sprintf("engine: object %d(%s) slot %d out of range %d (set)", o.id, o.label, i, o.size))
	}
	if o.pre && w.inPath {
		if o.cells != nil {
			w.undo = append(w.undo, undoRec{obj: o, idx: i, old: o.cells[i], had: true})
		} else {
			old, had := o.sparse[i]
			w.undo = append(w.undo, undoRec{obj: o, idx: i, old: old, had: had})
		}
	}
	if o.cells != nil {
		o.cells[i] = v
	} else {
		o.sparse[i] = v
	}
}

func (w *World) rollback() {
	for i := len(w.undo) - 1; i >= 0; i-- {
		u := w.undo[i]
		switch {
		case u.obj != nil:
			if u.obj.cells != nil {
				u.obj.cells[u.idx] = u.old
			} else if u.had {
				u.obj.sparse[u.idx] = u.old
			} else {
				delete(u.obj.sparse, u.idx)
			}
		case u.mobj != nil:
			u.mobj.entries = u.ment
			u.mobj.hasSym = u.mhas
			u.mobj.index = map[string]int{}
			for j, e := range u.ment {
				if e.conc && !e.deleted {
					u.mobj.index[e.ckey] = j
				}
			}
		case u.cobj != nil:
			u.cobj.buf = u.cbuf
			u.cobj.closed = u.ccl
		}
	}
	w.undo = w.undo[:0]
}

// load reads a value of type t at (o, off).
func (w *World) load(o *Obj, off int, t types.Type) Value {
	if isAggType(t) {
		n := w.slots(t)
		a := make(Agg, n)
		for i := 0; i < n; i++ {
			a[i] = o.get(off + i)
		}
		return a
	}
	return o.get(off)
}

func (w *World) store(o *Obj, off int, t types.Type, v Value) {
	if o.roData {
		panic("engine: store to read-only data")
	}
	if a, ok := v.(Agg); ok {
		for i, x := range a {
			w.set(o, off+i, x)
		}
		return
	}
	if isAggType(t) {
		panic(fmt.Sprintf("engine: storing non-aggregate %T into aggregate type %s", v, t))
	}
	w.set(o, off, v)
}

// ---- maps ----

func (w *World) newMap(kt, vt types.Type) *MapObj {
	w.nextObj++
	return &MapObj{id: w.nextObj, keyT: kt, valT: vt, index: map[string]int{}, pre: !w.inPath}
}

func (w *World) mapLogUndo(m *MapObj) {
	if m.pre && w.inPath {
		cp := make([]mapEntry, len(m.entries))
		copy(cp, m.entries)
		w.undo = append(w.undo, undoRec{mobj: m, ment: cp, mhas: m.hasSym})
	}
}

func (w *World) chanLogUndo(c *ChanObj) {
	if c.pre && w.inPath {
		cp := make([]Value, len(c.buf))
		copy(cp, c.buf)
		w.undo = append(w.undo, undoRec{cobj: c, cbuf: cp, ccl: c.closed})
	}
}
