package main

import (
	"fmt"
	"go/types"
	"strings"

	"golang.org/x/tools/go/ssa"
)

type callMode int

const (
	callNormal callMode = iota
	callDefer
	callGo
)

// Intrinsic implements a function natively in the engine.
// It returns the result value; stBlocked means "retry when rescheduled".
type Intrinsic func(it *Interp, g *G, fr *Frame, args []Value, site ssa.Instruction) (Value, stepResult)

var intrinsics = map[string]Intrinsic{}

func (it *Interp) intrinsicFor(fn *ssa.Function) Intrinsic {
	name := fn.String()
	if f, ok := intrinsics[name]; ok {
		return f
	}
	if fn.Pkg != nil && strings.HasPrefix(fn.Name(), "v") && fn.Blocks == nil && isRepoPkg(fn.Pkg.Pkg.Path()) {
		if f, ok := intrinsics["harness."+fn.Name()]; ok {
			return f
		}
	}
	if orig := fn.Origin(); orig != nil && orig != fn {
		if f, ok := intrinsics[orig.String()]; ok {
			return f
		}
	}
	return nil
}

func (it *Interp) doCall(g *G, fr *Frame, ins ssa.Instruction, c *ssa.CallCommon, mode callMode) stepResult {
	var site ssa.Value
	if v, ok := ins.(ssa.Value); ok {
		site = v
	}
	var fv *FuncV
	var args []Value
	if c.IsInvoke() {
		recv, _ := it.eval(fr, c.Value).(*Iface)
		if isNilValue(recv) {
			return it.goPanic(g, "nil interface method call "+c.Method.Name())
		}
		if rv, ok := recv.val.(*RType); ok {
			// method call on the reflect.Type model
			args = append(args, rv)
			for _, a := range c.Args {
				args = append(args, it.eval(fr, a))
			}
			return it.finishIntrinsic(g, fr, ins, site, mode, "reflect.Type."+c.Method.Name(), args)
		}
		fn := it.prog.LookupMethod(recv.typ, c.Method.Pkg(), c.Method.Name())
		if fn == nil {
			it.unsupported("method %s not found on %s", c.Method.Name(), recv.typ)
		}
		fv = &FuncV{fn: fn}
		args = append(args, recv.val)
	} else {
		switch f := c.Value.(type) {
		case *ssa.Builtin:
			for _, a := range c.Args {
				args = append(args, it.eval(fr, a))
			}
			switch mode {
			case callDefer:
				fr.defers = append(fr.defers, &deferRec{intr: "builtin:" + f.Name(), args: args, site: ins})
				fr.pc++
				return stOK
			case callGo:
				it.unsupported("go builtin")
			}
			return it.callBuiltin(g, fr, f.Name(), args, c, site)
		case *ssa.Function:
			fv = &FuncV{fn: f}
		default:
			fv, _ = it.eval(fr, c.Value).(*FuncV)
			if isNilValue(fv) {
				return it.goPanic(g, "call of nil function")
			}
		}
	}
	for _, a := range c.Args {
		args = append(args, it.eval(fr, a))
	}
	if fv.intr != "" {
		return it.finishIntrinsic(g, fr, ins, site, mode, fv.intr, args)
	}
	if fv.fn.Synthetic == "package initializer" {
		// dependencies are initialised by the engine in order (runInits)
		fr.pc++
		return stOK
	}
	if it.initMode && fv.fn.Pkg != nil && strings.HasPrefix(fv.fn.Name(), "init#") && strings.HasSuffix(fv.fn.Pkg.Pkg.Path(), "/diam/dict") && it.cfg.Params["init_dict"] == 0 {
		// the dict package's declared init function loads the embedded dictionaries into dict.Default:
		// skipped unless the harness asks for it; the package-level variable initialisers still run
		fr.pc++
		return stOK
	}
	if mode == callNormal && it.cfg.Summaries[fv.fn.String()] {
		// pure display helper summarised by an opaque result; its own paths are checked in isolation
		it.intrHit["summary "+fv.fn.String()]++
		return it.afterIntrinsic(g, fr, site, it.opaqueResult(fv.fn.Signature.Results()), stOK)
	}
	if mode == callNormal {
		if res, ok := it.preCall(g, fv.fn, args); ok {
			it.intrHit["abstract "+fv.fn.String()]++
			return it.afterIntrinsic(g, fr, site, res, stOK)
		}
	}
	if f := it.intrinsicFor(fv.fn); f != nil {
		name := fv.fn.String()
		if fv.fn.Blocks == nil && strings.HasPrefix(fv.fn.Name(), "v") {
			name = "harness." + fv.fn.Name()
		}
		switch mode {
		case callDefer:
			fr.defers = append(fr.defers, &deferRec{fn: fv, args: args, site: ins})
			fr.pc++
			return stOK
		case callGo:
			it.unsupported("go intrinsic %s", name)
		}
		it.intrHit[name]++
		res, st := f(it, g, fr, args, ins)
		return it.afterIntrinsic(g, fr, site, res, st)
	}
	if fv.fn.Blocks == nil {
		it.unsupported("call to external function %s", fv.fn)
	}
	switch mode {
	case callDefer:
		fr.defers = append(fr.defers, &deferRec{fn: fv, args: args, site: ins})
		fr.pc++
		return stOK
	case callGo:
		it.spawn(fv, args)
		fr.pc++
		it.visible(g)
		return stOK
	}
	it.pushFrame(g, fv.fn, args, fv.free, site)
	return stOK
}

func (it *Interp) finishIntrinsic(g *G, fr *Frame, ins ssa.Instruction, site ssa.Value, mode callMode, name string, args []Value) stepResult {
	if strings.HasPrefix(name, "builtin:") {
		return it.callBuiltin(g, fr, strings.TrimPrefix(name, "builtin:"), args, nil, site)
	}
	f := intrinsics[name]
	if f == nil {
		it.unsupported("intrinsic %s", name)
	}
	if mode == callDefer {
		fr.defers = append(fr.defers, &deferRec{intr: name, args: args, site: ins})
		fr.pc++
		return stOK
	}
	if mode == callGo {
		it.unsupported("go intrinsic %s", name)
	}
	it.intrHit[name]++
	res, st := f(it, g, fr, args, ins)
	return it.afterIntrinsic(g, fr, site, res, st)
}

func (it *Interp) afterIntrinsic(g *G, fr *Frame, site ssa.Value, res Value, st stepResult) stepResult {
	switch st {
	case stBlocked:
		return stBlocked
	case stEnd:
		return stEnd
	}
	if it.pendingPanic != "" {
		msg := it.pendingPanic
		it.pendingPanic = ""
		return it.goPanic(g, msg)
	}
	if it.pendingPanicVal != nil {
		v := it.pendingPanicVal
		it.pendingPanicVal = nil
		return it.goPanicVal(g, v, "panic", false)
	}
	if it.top(g) != fr {
		// the intrinsic pushed a frame (tail call into interpreted code); result arrives via callSite
		return stOK
	}
	if site != nil {
		it.setReg(fr, site, res)
	}
	fr.pc++
	if st == stYield {
		return stYield
	}
	return stOK
}

// spawn creates a new goroutine.
func (it *Interp) spawn(fv *FuncV, args []Value) *G {
	it.nextG++
	ng := &G{id: it.nextG, status: gRunnable, name: fv.fn.String()}
	if fv.fn.Pkg != nil && isRepoPkg(fv.fn.Pkg.Pkg.Path()) && !strings.Contains(fv.fn.Name(), "zz") {
		ng.lib = true
	}
	it.gs = append(it.gs, ng)
	it.pushFrame(ng, fv.fn, args, fv.free, nil)
	it.goroutinesSpawned++
	return ng
}

// callSync runs fn to completion on goroutine g (nested interpreter loop).
// It must not block.  Returns the result; ok=false if a panic is propagating.
func (it *Interp) callSync(g *G, fv *FuncV, args []Value) (Value, bool) {
	if f := it.intrinsicFor(fv.fn); f != nil {
		res, st := f(it, g, it.top(g), args, nil)
		if st == stBlocked {
			it.unsupported("intrinsic blocks in synchronous call")
		}
		return res, true
	}
	base := len(g.frames)
	nf := it.pushFrame(g, fv.fn, args, fv.free, nil)
	nf.syncRet = true
	saved := it.cur
	it.cur = g
	it.syncPanic = false
	for len(g.frames) > base {
		st := it.step(g)
		if st == stBlocked {
			it.unsupported("blocking operation inside a synchronous callback (%s)", fv.fn)
		}
		if st == stEnd {
			break
		}
	}
	it.cur = saved
	if it.syncPanic {
		it.syncPanic = false
		return nil, false
	}
	return it.lastResult, true
}

// ---- builtins ----

func (it *Interp) callBuiltin(g *G, fr *Frame, name string, args []Value, c *ssa.CallCommon, site ssa.Value) stepResult {
	res, pmsg, pval := it.builtinOp(g, fr, name, args, c)
	if pval != nil {
		return it.goPanicVal(g, pval, "explicit panic", false)
	}
	if pmsg != "" {
		return it.goPanic(g, pmsg)
	}
	if it.pendingPanic != "" {
		msg := it.pendingPanic
		it.pendingPanic = ""
		return it.goPanic(g, msg)
	}
	if site != nil {
		it.setReg(fr, site, res)
	}
	fr.pc++
	return stOK
}

// builtinOp evaluates a builtin; it never touches pc.
func (it *Interp) builtinOp(g *G, fr *Frame, name string, args []Value, c *ssa.CallCommon) (res Value, pmsg string, pval *Iface) {
	ts := it.ts
	switch name {
	case "len":
		switch x := args[0].(type) {
		case *Str:
			res = ts.Const(64, uint64(x.Len()))
		case *Slice:
			if isNilValue(x) {
				res = ts.Const(64, 0)
			} else {
				res = ts.Const(64, uint64(x.len))
			}
		case *MapV:
			if isNilValue(x) {
				res = ts.Const(64, 0)
			} else {
				res = ts.Const(64, uint64(x.m.liveLen()))
			}
		case *ChanV:
			if isNilValue(x) {
				res = ts.Const(64, 0)
			} else {
				res = ts.Const(64, uint64(len(x.c.buf)))
			}
		case Agg:
			res = ts.Const(64, uint64(c.Args[0].Type().Underlying().(*types.Array).Len()))
		case *Ptr:
			res = ts.Const(64, uint64(c.Args[0].Type().Underlying().(*types.Pointer).Elem().Underlying().(*types.Array).Len()))
		default:
			it.unsupported("len of %T", x)
		}
	case "cap":
		switch x := args[0].(type) {
		case *Slice:
			if isNilValue(x) {
				res = ts.Const(64, 0)
			} else {
				res = ts.Const(64, uint64(x.cap))
			}
		case *ChanV:
			if isNilValue(x) {
				res = ts.Const(64, 0)
			} else {
				res = ts.Const(64, uint64(x.c.cap))
			}
		case Agg:
			res = ts.Const(64, uint64(c.Args[0].Type().Underlying().(*types.Array).Len()))
		default:
			it.unsupported("cap of %T", x)
		}
	case "append":
		res = it.doAppend(args[0], args[1], c)
	case "copy":
		res = it.doCopy(args[0], args[1])
	case "delete":
		m := args[0].(*MapV)
		if !isNilValue(m) {
			it.mapDelete(m.m, args[1])
		}
	case "close":
		ch := args[0].(*ChanV)
		if isNilValue(ch) {
			return nil, "close of nil channel", nil
		}
		if ch.c.closed {
			return nil, "close of closed channel", nil
		}
		it.chanClose(ch.c)
		it.visible(g)
	case "panic":
		pv, _ := args[0].(*Iface)
		if isNilValue(pv) {
			return nil, "panic called with nil argument", nil
		}
		return nil, "", pv
	case "recover":
		if fr.isDefer && g.panic != nil && !g.panic.recovered && fr.deferBy != nil && fr.deferBy.unwinding {
			g.panic.recovered = true
			g.panic.recoveredBy = fr.deferBy
			it.recovered = append(it.recovered, g.panic.desc)
			res = g.panic.val
			if res == nil {
				res = (*Iface)(nil)
			}
		} else {
			res = (*Iface)(nil)
		}
	case "print", "println":
	case "min", "max":
		acc := args[0].(*Term)
		_, signed, _ := intWidth(c.Args[0].Type())
		for _, a := range args[1:] {
			b := a.(*Term)
			var lt *Term
			if signed {
				lt = ts.Slt(b, acc)
			} else {
				lt = ts.Ult(b, acc)
			}
			if name == "max" {
				lt = ts.Not(ts.Or(lt, ts.Eq(b, acc)))
				if signed {
					lt = ts.Slt(acc, b)
				} else {
					lt = ts.Ult(acc, b)
				}
			}
			acc = ts.Ite(lt, b, acc)
		}
		res = acc
	case "clear":
		switch x := args[0].(type) {
		case *MapV:
			if !isNilValue(x) {
				it.mapLogUndo(x.m)
				x.m.entries = nil
				x.m.index = map[string]int{}
				x.m.hasSym = false
			}
		case *Slice:
			if !isNilValue(x) {
				et := c.Args[0].Type().Underlying().(*types.Slice).Elem()
				for i := 0; i < x.len; i++ {
					it.store(x.obj, x.off+i*x.esz, et, it.zero(et))
				}
			}
		}
	case "ssa:wrapnilchk":
		if isNilValue(args[0]) {
			return nil, "nil pointer dereference (method value wrapper)", nil
		}
		res = args[0]
	case "SliceData":
		// unsafe.SliceData: pointer to element 0 of the slice's backing array
		x, _ := args[0].(*Slice)
		if isNilValue(x) {
			res = (*Ptr)(nil)
		} else {
			res = &Ptr{obj: x.obj, off: x.off}
		}
	case "String":
		// unsafe.String(ptr, len): a string that aliases live memory (see Str.view)
		p, _ := args[0].(*Ptr)
		n := int(it.concretize(args[1].(*Term), "unsafe.String length"))
		if isNilValue(p) || n == 0 {
			res = &Str{}
		} else {
			if p.off+n > p.obj.size {
				return nil, "unsafe.String beyond the object it points into", nil
			}
			res = it.viewString(&Slice{obj: p.obj, off: p.off, len: n, cap: n, esz: 1})
		}
	default:
		it.unsupported("builtin %s", name)
	}
	return res, "", nil
}

func (it *Interp) doAppend(a0, a1 Value, c *ssa.CallCommon) Value {
	dst, _ := a0.(*Slice)
	var et types.Type
	if c != nil {
		et = c.Args[0].Type().Underlying().(*types.Slice).Elem()
	}
	var srcLen int
	var srcGet func(i, k int) Value
	esz := 1
	if et != nil {
		esz = it.slots(et)
	} else if !isNilValue(dst) {
		esz = dst.esz
	}
	switch s := a1.(type) {
	case *Slice:
		if !isNilValue(s) {
			srcLen = s.len
			srcGet = func(i, k int) Value { return s.obj.get(s.off + i*s.esz + k) }
		}
	case *Str:
		cells := it.strCells(s)
		srcLen = len(cells)
		srcGet = func(i, k int) Value { return cells[i] }
	case nil:
	default:
		it.unsupported("append source %T", a1)
	}
	if srcLen == 0 {
		if isNilValue(dst) {
			return (*Slice)(nil)
		}
		return dst
	}
	dl, dc := 0, 0
	if !isNilValue(dst) {
		dl, dc = dst.len, dst.cap
	}
	if dl+srcLen <= dc {
		// snapshot source first (may alias destination)
		tmp := make([]Value, srcLen*esz)
		for i := 0; i < srcLen; i++ {
			for k := 0; k < esz; k++ {
				tmp[i*esz+k] = srcGet(i, k)
			}
		}
		for i, v := range tmp {
			it.set(dst.obj, dst.off+dl*esz+i, v)
		}
		return &Slice{obj: dst.obj, off: dst.off, len: dl + srcLen, cap: dc, esz: esz}
	}
	nc := dc * 2
	if nc < dl+srcLen {
		nc = dl + srcLen
	}
	if et == nil {
		it.unsupported("append growth without element type")
	}
	o := it.newArrayObj(et, nc, "append")
	it.ghostAlloc(int64(nc * it.sizeofBytes(et)))
	for i := 0; i < dl*esz; i++ {
		it.set(o, i, dst.obj.get(dst.off+i))
	}
	for i := 0; i < srcLen; i++ {
		for k := 0; k < esz; k++ {
			it.set(o, (dl+i)*esz+k, srcGet(i, k))
		}
	}
	return &Slice{obj: o, len: dl + srcLen, cap: nc, esz: esz}
}

func (it *Interp) doCopy(a0, a1 Value) Value {
	dst, _ := a0.(*Slice)
	dl := 0
	if !isNilValue(dst) {
		dl = dst.len
	}
	var n int
	switch s := a1.(type) {
	case *Slice:
		sl := 0
		if !isNilValue(s) {
			sl = s.len
		}
		n = dl
		if sl < n {
			n = sl
		}
		if n > 0 {
			esz := dst.esz
			tmp := make([]Value, n*esz)
			for i := range tmp {
				tmp[i] = s.obj.get(s.off + i)
			}
			for i, v := range tmp {
				it.set(dst.obj, dst.off+i, v)
			}
		}
	case *Str:
		cells := it.strCells(s)
		n = dl
		if len(cells) < n {
			n = len(cells)
		}
		for i := 0; i < n; i++ {
			it.set(dst.obj, dst.off+i, cells[i])
		}
	default:
		it.unsupported("copy source %T", a1)
	}
	return it.ts.Const(64, uint64(n))
}

func describeValue(v Value) string {
	switch x := v.(type) {
	case *Term:
		return x.String()
	case *Str:
		if x.IsConc() {
			return fmt.Sprintf("%q", x.conc)
		}
		return fmt.Sprintf("<sym string len %d>", len(x.cells))
	case *Iface:
		if isNilValue(x) {
			return "nil"
		}
		return x.typ.String() + "(" + describeValue(x.val) + ")"
	}
	return fmt.Sprintf("%T", v)
}

func (it *Interp) opaqueResult(rs *types.Tuple) Value {
	one := func(t types.Type) Value {
		if isString(t) {
			return concStr("‹summary›")
		}
		it.unsupported("summarised function with non-string result %s", t)
		return nil
	}
	switch rs.Len() {
	case 0:
		return nil
	case 1:
		return one(rs.At(0).Type())
	}
	tu := make(Tuple, rs.Len())
	for i := range tu {
		tu[i] = one(rs.At(i).Type())
	}
	return tu
}

// checkPure verifies syntactically that fn has no side effects (so that replacing
// a call by an opaque result cannot hide a state change).
func checkPure(fn *ssa.Function, allowed map[string]bool) error {
	if fn.Blocks == nil {
		return fmt.Errorf("%s has no body", fn)
	}
	local := map[ssa.Value]bool{}
	for _, b := range fn.Blocks {
		for _, ins := range b.Instrs {
			if a, ok := ins.(*ssa.Alloc); ok {
				local[a] = true
			}
		}
	}
	for _, b := range fn.Blocks {
		for _, ins := range b.Instrs {
			switch x := ins.(type) {
			case *ssa.Store:
				root := x.Addr
				for {
					switch a := root.(type) {
					case *ssa.FieldAddr:
						root = a.X
						continue
					case *ssa.IndexAddr:
						root = a.X
						continue
					}
					break
				}
				if !local[root] {
					return fmt.Errorf("%s stores through non-local address", fn)
				}
			case *ssa.MapUpdate, *ssa.Send, *ssa.Go, *ssa.Defer, *ssa.Select, *ssa.Panic:
				return fmt.Errorf("%s contains %T", fn, ins)
			case *ssa.Call:
				if x.Call.IsInvoke() {
					return fmt.Errorf("%s makes a dynamic call", fn)
				}
				switch c := x.Call.Value.(type) {
				case *ssa.Builtin:
					if c.Name() != "len" && c.Name() != "cap" {
						return fmt.Errorf("%s calls builtin %s", fn, c.Name())
					}
				case *ssa.Function:
					n := c.String()
					if !allowed[n] && n != "fmt.Sprintf" && n != "fmt.Sprint" {
						return fmt.Errorf("%s calls %s", fn, n)
					}
				default:
					return fmt.Errorf("%s calls a function value", fn)
				}
			}
		}
	}
	return nil
}
