package main

// Hash-consed SMT terms over Bool and fixed-width bit-vectors (width 1..64),
// with an eager simplifier.  One TermStore per worker; not thread safe.

import (
	"fmt"
	"math/bits"
	"strings"
)

type Op uint8

const (
	OpConst Op = iota
	OpVar
	OpNot
	OpAnd
	OpOr
	OpIte
	OpEq
	OpBvNot
	OpBvAnd
	OpBvOr
	OpBvXor
	OpBvNeg
	OpBvAdd
	OpBvSub
	OpBvMul
	OpBvUDiv
	OpBvURem
	OpBvSDiv
	OpBvSRem
	OpBvShl
	OpBvLshr
	OpBvAshr
	OpUlt
	OpUle
	OpSlt
	OpSle
	OpExtract // hi, lo in val (hi<<8|lo)
	OpConcat
	OpZext
	OpSext
)

var opNames = [...]string{"const", "var", "not", "and", "or", "ite", "=", "bvnot", "bvand", "bvor", "bvxor", "bvneg",
	"bvadd", "bvsub", "bvmul", "bvudiv", "bvurem", "bvsdiv", "bvsrem", "bvshl", "bvlshr", "bvashr",
	"bvult", "bvule", "bvslt", "bvsle", "extract", "concat", "zero_extend", "sign_extend"}

// Term: W==0 means Bool.
type Term struct {
	Op   Op
	W    uint8
	Args [3]*Term
	N    uint8 // number of args
	Val  uint64
	Name string
	ID   int
}

func (t *Term) IsConst() bool { return t.Op == OpConst }
func (t *Term) IsBool() bool  { return t.W == 0 }
func (t *Term) IsTrue() bool  { return t.Op == OpConst && t.W == 0 && t.Val == 1 }
func (t *Term) IsFalse() bool { return t.Op == OpConst && t.W == 0 && t.Val == 0 }

type termKey struct {
	op         Op
	w          uint8
	a0, a1, a2 int
	val        uint64
	name       string
}

type TermStore struct {
	tab    map[termKey]*Term
	nextID int
	subst  map[*Term]*Term // term -> constant, installed on taken equalities (per path)
	tt, ff *Term
}

func NewTermStore() *TermStore {
	ts := &TermStore{tab: map[termKey]*Term{}, subst: map[*Term]*Term{}}
	ts.tt = ts.mk(OpConst, 0, 1, "")
	ts.ff = ts.mk(OpConst, 0, 0, "")
	return ts
}

func (ts *TermStore) Size() int { return len(ts.tab) }

func (ts *TermStore) mk(op Op, w uint8, val uint64, name string, args ...*Term) *Term {
	k := termKey{op: op, w: w, val: val, name: name, a0: -1, a1: -1, a2: -1}
	if len(args) > 0 {
		k.a0 = args[0].ID
	}
	if len(args) > 1 {
		k.a1 = args[1].ID
	}
	if len(args) > 2 {
		k.a2 = args[2].ID
	}
	if t, ok := ts.tab[k]; ok {
		return t
	}
	t := &Term{Op: op, W: w, Val: val, Name: name, ID: ts.nextID, N: uint8(len(args))}
	copy(t.Args[:], args)
	ts.nextID++
	ts.tab[k] = t
	return t
}

func mask(w uint8) uint64 {
	if w >= 64 {
		return ^uint64(0)
	}
	return (uint64(1) << w) - 1
}

func sext64(v uint64, w uint8) int64 {
	if w >= 64 {
		return int64(v)
	}
	sh := 64 - uint(w)
	return int64(v<<sh) >> sh
}

func (ts *TermStore) Bool(b bool) *Term {
	if b {
		return ts.tt
	}
	return ts.ff
}

func (ts *TermStore) Const(w uint8, v uint64) *Term {
	if w == 0 {
		return ts.Bool(v != 0)
	}
	return ts.mk(OpConst, w, v&mask(w), "")
}

func (ts *TermStore) Var(w uint8, name string) *Term {
	return ts.mk(OpVar, w, 0, name)
}

// norm applies the per-path substitution (to the term itself and, for small
// wrappers, to its operands).
func (ts *TermStore) norm(t *Term) *Term {
	if t.Op == OpConst || len(ts.subst) == 0 {
		return t
	}
	return ts.normD(t, 3)
}

func (ts *TermStore) normD(t *Term, depth int) *Term {
	if t.Op == OpConst {
		return t
	}
	if c, ok := ts.subst[t]; ok {
		return c
	}
	if depth == 0 || t.Op == OpVar {
		return t
	}
	switch t.Op {
	case OpZext, OpSext, OpExtract, OpNot, OpBvNot, OpBvNeg:
		a := ts.normD(t.Args[0], depth-1)
		if a == t.Args[0] {
			return t
		}
		sub := ts.subst
		ts.subst = nil
		var r *Term
		switch t.Op {
		case OpZext:
			r = ts.Zext(a, t.W)
		case OpSext:
			r = ts.Sext(a, t.W)
		case OpExtract:
			r = ts.Extract(a, uint8(t.Val>>8), uint8(t.Val&0xff))
		case OpNot:
			r = ts.Not(a)
		case OpBvNot:
			r = ts.BvNot(a)
		case OpBvNeg:
			r = ts.BvNeg(a)
		}
		ts.subst = sub
		return r
	case OpEq, OpUlt, OpUle, OpSlt, OpSle, OpConcat, OpBvAnd, OpBvOr, OpBvAdd, OpBvSub, OpAnd, OpOr:
		a, b := ts.normD(t.Args[0], depth-1), ts.normD(t.Args[1], depth-1)
		if a == t.Args[0] && b == t.Args[1] {
			return t
		}
		sub := ts.subst
		ts.subst = nil
		var r *Term
		switch t.Op {
		case OpEq:
			r = ts.Eq(a, b)
		case OpUlt, OpUle, OpSlt, OpSle:
			r = ts.cmp(t.Op, a, b)
		case OpConcat:
			r = ts.Concat(a, b)
		case OpAnd:
			r = ts.And(a, b)
		case OpOr:
			r = ts.Or(a, b)
		default:
			r = ts.Bin(t.Op, a, b)
		}
		ts.subst = sub
		return r
	}
	return t
}

func (ts *TermStore) Not(a *Term) *Term {
	a = ts.norm(a)
	if a.Op == OpConst {
		return ts.Bool(a.Val == 0)
	}
	if a.Op == OpNot {
		return a.Args[0]
	}
	return ts.mk(OpNot, 0, 0, "", a)
}

func (ts *TermStore) And(a, b *Term) *Term {
	a, b = ts.norm(a), ts.norm(b)
	if a.Op == OpConst {
		if a.Val == 0 {
			return a
		}
		return b
	}
	if b.Op == OpConst {
		if b.Val == 0 {
			return b
		}
		return a
	}
	if a == b {
		return a
	}
	if a.ID > b.ID {
		a, b = b, a
	}
	return ts.mk(OpAnd, 0, 0, "", a, b)
}

func (ts *TermStore) Or(a, b *Term) *Term {
	a, b = ts.norm(a), ts.norm(b)
	if a.Op == OpConst {
		if a.Val == 1 {
			return a
		}
		return b
	}
	if b.Op == OpConst {
		if b.Val == 1 {
			return b
		}
		return a
	}
	if a == b {
		return a
	}
	if a.ID > b.ID {
		a, b = b, a
	}
	return ts.mk(OpOr, 0, 0, "", a, b)
}

func (ts *TermStore) Implies(a, b *Term) *Term { return ts.Or(ts.Not(a), b) }

func (ts *TermStore) Ite(c, a, b *Term) *Term {
	c, a, b = ts.norm(c), ts.norm(a), ts.norm(b)
	if c.Op == OpConst {
		if c.Val == 1 {
			return a
		}
		return b
	}
	if a == b {
		return a
	}
	if a.W == 0 {
		// boolean ite
		if a.Op == OpConst && b.Op == OpConst {
			if a.Val == 1 {
				return c
			}
			return ts.Not(c)
		}
		return ts.Or(ts.And(c, a), ts.And(ts.Not(c), b))
	}
	return ts.mk(OpIte, a.W, 0, "", c, a, b)
}

func (ts *TermStore) Eq(a, b *Term) *Term {
	a, b = ts.norm(a), ts.norm(b)
	if a.W != b.W {
		panic(fmt.Sprintf("Eq width mismatch %d %d: %s vs %s", a.W, b.W, a, b))
	}
	if a == b {
		return ts.tt
	}
	if a.Op == OpConst && b.Op == OpConst {
		return ts.Bool(a.Val == b.Val)
	}
	if a.W == 0 {
		if a.Op == OpConst {
			if a.Val == 1 {
				return b
			}
			return ts.Not(b)
		}
		if b.Op == OpConst {
			if b.Val == 1 {
				return a
			}
			return ts.Not(a)
		}
	}
	if a.Op == OpConst {
		a, b = b, a
	}
	// now b may be const
	if b.Op == OpConst {
		switch a.Op {
		case OpZext:
			inner := a.Args[0]
			if b.Val > mask(inner.W) {
				return ts.ff
			}
			return ts.Eq(inner, ts.Const(inner.W, b.Val))
		case OpConcat:
			hi, lo := a.Args[0], a.Args[1]
			return ts.And(ts.Eq(hi, ts.Const(hi.W, b.Val>>lo.W)), ts.Eq(lo, ts.Const(lo.W, b.Val)))
		case OpIte:
			if a.Args[1].Op == OpConst && a.Args[2].Op == OpConst {
				x, y := a.Args[1].Val == b.Val, a.Args[2].Val == b.Val
				switch {
				case x && y:
					return ts.tt
				case x:
					return a.Args[0]
				case y:
					return ts.Not(a.Args[0])
				default:
					return ts.ff
				}
			}
		}
	}
	if a.ID > b.ID {
		a, b = b, a
	}
	return ts.mk(OpEq, 0, 0, "", a, b)
}

func (ts *TermStore) cmp(op Op, a, b *Term) *Term {
	a, b = ts.norm(a), ts.norm(b)
	if a.W != b.W {
		panic(fmt.Sprintf("cmp width mismatch %d %d", a.W, b.W))
	}
	if a.Op == OpConst && b.Op == OpConst {
		switch op {
		case OpUlt:
			return ts.Bool(a.Val < b.Val)
		case OpUle:
			return ts.Bool(a.Val <= b.Val)
		case OpSlt:
			return ts.Bool(sext64(a.Val, a.W) < sext64(b.Val, b.W))
		case OpSle:
			return ts.Bool(sext64(a.Val, a.W) <= sext64(b.Val, b.W))
		}
	}
	if a == b {
		return ts.Bool(op == OpUle || op == OpSle)
	}
	// range reasoning for zero-extended values against constants
	if op == OpUlt && b.Op == OpConst && b.Val == 0 {
		return ts.ff
	}
	if op == OpUle && a.Op == OpConst && a.Val == 0 {
		return ts.tt
	}
	if ra, ok := ts.urange(a); ok {
		if rb, ok2 := ts.urange(b); ok2 {
			// both non-negative in signed interpretation when hi < 2^(w-1)
			signedOK := ra.hi < (uint64(1)<<(a.W-1)) && rb.hi < (uint64(1)<<(a.W-1))
			if op == OpUlt || (op == OpSlt && signedOK) {
				if ra.hi < rb.lo {
					return ts.tt
				}
				if ra.lo >= rb.hi {
					return ts.ff
				}
			}
			if op == OpUle || (op == OpSle && signedOK) {
				if ra.hi <= rb.lo {
					return ts.tt
				}
				if ra.lo > rb.hi {
					return ts.ff
				}
			}
			if signedOK {
				// canonicalise signed to unsigned
				if op == OpSlt {
					op = OpUlt
				} else if op == OpSle {
					op = OpUle
				}
			}
		}
	}
	return ts.mk(op, 0, 0, "", a, b)
}

type urng struct{ lo, hi uint64 }

// urange returns a cheap unsigned over-approximation of a term's value range.
func (ts *TermStore) urange(t *Term) (urng, bool) {
	switch t.Op {
	case OpConst:
		return urng{t.Val, t.Val}, true
	case OpZext:
		return urng{0, mask(t.Args[0].W)}, true
	case OpConcat:
		if t.Args[0].Op == OpConst {
			base := t.Args[0].Val << t.Args[1].W
			return urng{base, base | mask(t.Args[1].W)}, true
		}
	case OpBvAnd:
		if t.Args[1].Op == OpConst {
			return urng{0, t.Args[1].Val}, true
		}
		if t.Args[0].Op == OpConst {
			return urng{0, t.Args[0].Val}, true
		}
	case OpBvLshr:
		if t.Args[1].Op == OpConst && t.Args[1].Val < uint64(t.W) {
			return urng{0, mask(t.W) >> t.Args[1].Val}, true
		}
	case OpIte:
		a, ok1 := ts.urange(t.Args[1])
		b, ok2 := ts.urange(t.Args[2])
		if ok1 && ok2 {
			r := a
			if b.lo < r.lo {
				r.lo = b.lo
			}
			if b.hi > r.hi {
				r.hi = b.hi
			}
			return r, true
		}
	}
	if t.W > 0 {
		return urng{0, mask(t.W)}, true
	}
	return urng{}, false
}

func (ts *TermStore) Ult(a, b *Term) *Term { return ts.cmp(OpUlt, a, b) }
func (ts *TermStore) Ule(a, b *Term) *Term { return ts.cmp(OpUle, a, b) }
func (ts *TermStore) Slt(a, b *Term) *Term { return ts.cmp(OpSlt, a, b) }
func (ts *TermStore) Sle(a, b *Term) *Term { return ts.cmp(OpSle, a, b) }

func (ts *TermStore) BvNot(a *Term) *Term {
	a = ts.norm(a)
	if a.Op == OpConst {
		return ts.Const(a.W, ^a.Val)
	}
	if a.Op == OpBvNot {
		return a.Args[0]
	}
	return ts.mk(OpBvNot, a.W, 0, "", a)
}

func (ts *TermStore) BvNeg(a *Term) *Term {
	a = ts.norm(a)
	if a.Op == OpConst {
		return ts.Const(a.W, -a.Val)
	}
	return ts.mk(OpBvNeg, a.W, 0, "", a)
}

func (ts *TermStore) Bin(op Op, a, b *Term) *Term {
	a, b = ts.norm(a), ts.norm(b)
	if a.W != b.W {
		panic(fmt.Sprintf("bin %s width mismatch %d %d", opNames[op], a.W, b.W))
	}
	w := a.W
	if a.Op == OpConst && b.Op == OpConst {
		x, y := a.Val, b.Val
		var r uint64
		switch op {
		case OpBvAnd:
			r = x & y
		case OpBvOr:
			r = x | y
		case OpBvXor:
			r = x ^ y
		case OpBvAdd:
			r = x + y
		case OpBvSub:
			r = x - y
		case OpBvMul:
			r = x * y
		case OpBvUDiv:
			if y == 0 {
				r = mask(w)
			} else {
				r = x / y
			}
		case OpBvURem:
			if y == 0 {
				r = x
			} else {
				r = x % y
			}
		case OpBvSDiv:
			sx, sy := sext64(x, w), sext64(y, w)
			if sy == 0 {
				if sx < 0 {
					r = 1
				} else {
					r = mask(w)
				}
			} else if sy == -1 {
				r = uint64(-sx)
			} else {
				r = uint64(sx / sy)
			}
		case OpBvSRem:
			sx, sy := sext64(x, w), sext64(y, w)
			if sy == 0 {
				r = x
			} else if sy == -1 {
				r = 0
			} else {
				r = uint64(sx % sy)
			}
		case OpBvShl:
			if y >= uint64(w) {
				r = 0
			} else {
				r = x << y
			}
		case OpBvLshr:
			if y >= uint64(w) {
				r = 0
			} else {
				r = x >> y
			}
		case OpBvAshr:
			sx := sext64(x, w)
			if y >= uint64(w) {
				y = uint64(w) - 1
			}
			r = uint64(sx >> y)
		default:
			panic("bad bin op")
		}
		return ts.Const(w, r)
	}
	// identities
	switch op {
	case OpBvAnd:
		if a.Op == OpConst {
			a, b = b, a
		}
		if b.Op == OpConst {
			if b.Val == 0 {
				return b
			}
			if b.Val == mask(w) {
				return a
			}
			// and of zext with a mask covering the inner width
			if a.Op == OpZext && b.Val&mask(a.Args[0].W) == mask(a.Args[0].W) {
				return a
			}
			// low mask = zext(extract)
			if b.Val&(b.Val+1) == 0 { // 2^k-1
				k := uint8(bits.Len64(b.Val))
				return ts.Zext(ts.Extract(a, k-1, 0), w)
			}
		}
		if a == b {
			return a
		}
	case OpBvOr:
		if a.Op == OpConst {
			a, b = b, a
		}
		if b.Op == OpConst {
			if b.Val == 0 {
				return a
			}
			if b.Val == mask(w) {
				return b
			}
		}
		if a == b {
			return a
		}
		// operands with disjoint non-zero segments (big-endian assembly idioms) => concat
		if r := ts.orDisjoint(a, b); r != nil {
			return r
		}
	case OpBvXor:
		if a.Op == OpConst {
			a, b = b, a
		}
		if b.Op == OpConst && b.Val == 0 {
			return a
		}
		if a == b {
			return ts.Const(w, 0)
		}
	case OpBvAdd:
		if a.Op == OpConst {
			a, b = b, a
		}
		if b.Op == OpConst {
			if b.Val == 0 {
				return a
			}
			if a.Op == OpBvAdd && a.Args[1].Op == OpConst {
				return ts.Bin(OpBvAdd, a.Args[0], ts.Const(w, a.Args[1].Val+b.Val))
			}
		}
	case OpBvSub:
		if b.Op == OpConst {
			if b.Val == 0 {
				return a
			}
			return ts.Bin(OpBvAdd, a, ts.Const(w, -b.Val))
		}
		if a == b {
			return ts.Const(w, 0)
		}
	case OpBvMul:
		if a.Op == OpConst {
			a, b = b, a
		}
		if b.Op == OpConst {
			if b.Val == 0 {
				return b
			}
			if b.Val == 1 {
				return a
			}
			if b.Val&(b.Val-1) == 0 {
				return ts.Bin(OpBvShl, a, ts.Const(w, uint64(bits.TrailingZeros64(b.Val))))
			}
		}
	case OpBvShl, OpBvLshr, OpBvAshr:
		if b.Op == OpConst {
			if b.Val == 0 {
				return a
			}
			if b.Val >= uint64(w) && op != OpBvAshr {
				return ts.Const(w, 0)
			}
			k := uint8(b.Val)
			if op == OpBvLshr {
				// lshr(x,k) = zext(extract(x, w-1, k))
				return ts.Zext(ts.Extract(a, w-1, k), w)
			}
			if op == OpBvShl {
				// shl(x,k) = concat(extract(x, w-1-k, 0), 0_k)
				return ts.Concat(ts.Extract(a, w-1-k, 0), ts.Const(k, 0))
			}
		}
		if a.Op == OpConst && a.Val == 0 {
			return a
		}
	case OpBvUDiv, OpBvURem:
		if b.Op == OpConst && b.Val != 0 && b.Val&(b.Val-1) == 0 {
			k := uint64(bits.TrailingZeros64(b.Val))
			if op == OpBvUDiv {
				return ts.Bin(OpBvLshr, a, ts.Const(w, k))
			}
			return ts.Bin(OpBvAnd, a, ts.Const(w, b.Val-1))
		}
	}
	if (op == OpBvAnd || op == OpBvOr || op == OpBvXor || op == OpBvAdd || op == OpBvMul) && a.ID > b.ID && b.Op != OpConst {
		a, b = b, a
	}
	return ts.mk(op, w, 0, "", a, b)
}

type seg struct {
	w uint8
	t *Term // nil = zero bits
}

func (ts *TermStore) segs(t *Term, out []seg) []seg {
	switch t.Op {
	case OpConst:
		if t.Val == 0 {
			return append(out, seg{t.W, nil})
		}
	case OpZext:
		out = append(out, seg{t.W - t.Args[0].W, nil})
		return ts.segs(t.Args[0], out)
	case OpConcat:
		out = ts.segs(t.Args[0], out)
		return ts.segs(t.Args[1], out)
	}
	return append(out, seg{t.W, t})
}

// orDisjoint merges a|b when, segment by segment (high to low), at most one side is non-zero.
func (ts *TermStore) orDisjoint(a, b *Term) *Term {
	sa := ts.segs(a, nil)
	sb := ts.segs(b, nil)
	if len(sa) == 1 && sa[0].t != nil && len(sb) == 1 && sb[0].t != nil {
		return nil
	}
	var parts []*Term
	ia, ib := 0, 0
	var ra, rb uint8 // bits already consumed from the current segments (from the high end)
	for ia < len(sa) && ib < len(sb) {
		wa, wb := sa[ia].w-ra, sb[ib].w-rb
		w := wa
		if wb < w {
			w = wb
		}
		pick := func(s seg, consumed uint8) *Term {
			if s.t == nil {
				return nil
			}
			hi := s.w - consumed - 1
			return ts.Extract(s.t, hi, hi-w+1)
		}
		pa, pb := pick(sa[ia], ra), pick(sb[ib], rb)
		switch {
		case pa != nil && pb != nil:
			return nil
		case pa != nil:
			parts = append(parts, pa)
		case pb != nil:
			parts = append(parts, pb)
		default:
			parts = append(parts, ts.Const(w, 0))
		}
		ra += w
		rb += w
		if ra == sa[ia].w {
			ia++
			ra = 0
		}
		if rb == sb[ib].w {
			ib++
			rb = 0
		}
	}
	r := parts[0]
	for _, p := range parts[1:] {
		r = ts.Concat(r, p)
	}
	return r
}

func (ts *TermStore) Extract(a *Term, hi, lo uint8) *Term {
	a = ts.norm(a)
	if hi < lo || hi >= a.W {
		panic(fmt.Sprintf("bad extract [%d:%d] of width %d", hi, lo, a.W))
	}
	w := hi - lo + 1
	if w == a.W {
		return a
	}
	switch a.Op {
	case OpConst:
		return ts.Const(w, a.Val>>lo)
	case OpExtract:
		l0 := uint8(a.Val & 0xff)
		return ts.Extract(a.Args[0], hi+l0, lo+l0)
	case OpConcat:
		h, l := a.Args[0], a.Args[1]
		if hi < l.W {
			return ts.Extract(l, hi, lo)
		}
		if lo >= l.W {
			return ts.Extract(h, hi-l.W, lo-l.W)
		}
		return ts.Concat(ts.Extract(h, hi-l.W, 0), ts.Extract(l, l.W-1, lo))
	case OpZext, OpSext:
		in := a.Args[0]
		if hi < in.W {
			return ts.Extract(in, hi, lo)
		}
		if lo >= in.W && a.Op == OpZext {
			return ts.Const(w, 0)
		}
		if a.Op == OpZext {
			return ts.Zext(ts.Extract(in, in.W-1, lo), w)
		}
	case OpIte:
		if a.Args[1].Op == OpConst || a.Args[2].Op == OpConst {
			return ts.Ite(a.Args[0], ts.Extract(a.Args[1], hi, lo), ts.Extract(a.Args[2], hi, lo))
		}
	case OpBvAnd, OpBvOr, OpBvXor:
		if a.Args[1].Op == OpConst {
			return ts.Bin(a.Op, ts.Extract(a.Args[0], hi, lo), ts.Extract(a.Args[1], hi, lo))
		}
	}
	return ts.mk(OpExtract, w, uint64(hi)<<8|uint64(lo), "", a)
}

func (ts *TermStore) Concat(h, l *Term) *Term {
	h, l = ts.norm(h), ts.norm(l)
	w := h.W + l.W
	if w > 64 {
		panic("concat wider than 64")
	}
	if h.Op == OpConst && l.Op == OpConst {
		return ts.Const(w, h.Val<<l.W|l.Val)
	}
	if h.Op == OpConst && h.Val == 0 {
		return ts.Zext(l, w)
	}
	// extract(x,hi,m+1) ++ extract(x,m,lo) = extract(x,hi,lo)
	if h.Op == OpExtract && l.Op == OpExtract && h.Args[0] == l.Args[0] {
		hlo := uint8(h.Val & 0xff)
		lhi := uint8(l.Val >> 8)
		if hlo == lhi+1 {
			return ts.Extract(h.Args[0], uint8(h.Val>>8), uint8(l.Val&0xff))
		}
	}
	// (a ++ b) ++ c  => a ++ (b ++ c) canonical right-nesting
	if h.Op == OpConcat {
		return ts.Concat(h.Args[0], ts.Concat(h.Args[1], l))
	}
	return ts.mk(OpConcat, w, 0, "", h, l)
}

func (ts *TermStore) Zext(a *Term, w uint8) *Term {
	a = ts.norm(a)
	if w == a.W {
		return a
	}
	if w < a.W {
		panic("zext to narrower")
	}
	if a.Op == OpConst {
		return ts.Const(w, a.Val)
	}
	if a.Op == OpZext {
		return ts.Zext(a.Args[0], w)
	}
	return ts.mk(OpZext, w, 0, "", a)
}

func (ts *TermStore) Sext(a *Term, w uint8) *Term {
	a = ts.norm(a)
	if w == a.W {
		return a
	}
	if w < a.W {
		panic("sext to narrower")
	}
	if a.Op == OpConst {
		return ts.Const(w, uint64(sext64(a.Val, a.W)))
	}
	if a.Op == OpZext {
		return ts.Zext(a.Args[0], w)
	}
	return ts.mk(OpSext, w, 0, "", a)
}

// Resize converts a to width w (truncate or extend by signedness of source).
func (ts *TermStore) Resize(a *Term, w uint8, signed bool) *Term {
	if a.W == w {
		return a
	}
	if a.W > w {
		return ts.Extract(a, w-1, 0)
	}
	if signed {
		return ts.Sext(a, w)
	}
	return ts.Zext(a, w)
}

// ---- printing ----

func (t *Term) String() string {
	var sb strings.Builder
	t.write(&sb, 0)
	return sb.String()
}

func (t *Term) write(sb *strings.Builder, depth int) {
	if depth > 12 {
		sb.WriteString("…")
		return
	}
	switch t.Op {
	case OpConst:
		if t.W == 0 {
			if t.Val == 1 {
				sb.WriteString("true")
			} else {
				sb.WriteString("false")
			}
		} else {
			fmt.Fprintf(sb, "%d:%d", t.Val, t.W)
		}
	case OpVar:
		sb.WriteString(t.Name)
	case OpExtract:
		fmt.Fprintf(sb, "(extract[%d:%d] ", t.Val>>8, t.Val&0xff)
		t.Args[0].write(sb, depth+1)
		sb.WriteString(")")
	default:
		sb.WriteString("(")
		sb.WriteString(opNames[t.Op])
		for i := 0; i < int(t.N); i++ {
			sb.WriteString(" ")
			t.Args[i].write(sb, depth+1)
		}
		sb.WriteString(")")
	}
}

func sortStr(w uint8) string {
	if w == 0 {
		return "Bool"
	}
	return fmt.Sprintf("(_ BitVec %d)", w)
}

func constStr(t *Term) string {
	if t.W == 0 {
		if t.Val == 1 {
			return "true"
		}
		return "false"
	}
	if t.W%4 == 0 {
		return fmt.Sprintf("#x%0*x", int(t.W/4), t.Val)
	}
	return fmt.Sprintf("#b%0*b", int(t.W), t.Val)
}

// evalTerm evaluates t under a model (variable name -> value).
func evalTerm(t *Term, model map[string]uint64, memo map[*Term]uint64) uint64 {
	if v, ok := memo[t]; ok {
		return v
	}
	var r uint64
	arg := func(i int) uint64 { return evalTerm(t.Args[i], model, memo) }
	b2u := func(b bool) uint64 {
		if b {
			return 1
		}
		return 0
	}
	switch t.Op {
	case OpConst:
		r = t.Val
	case OpVar:
		r = model[t.Name] & mask64(t.W)
	case OpNot:
		r = 1 - arg(0)
	case OpAnd:
		r = arg(0) & arg(1)
	case OpOr:
		r = arg(0) | arg(1)
	case OpIte:
		if arg(0) == 1 {
			r = arg(1)
		} else {
			r = arg(2)
		}
	case OpEq:
		r = b2u(arg(0) == arg(1))
	case OpBvNot:
		r = ^arg(0) & mask(t.W)
	case OpBvNeg:
		r = -arg(0) & mask(t.W)
	case OpUlt:
		r = b2u(arg(0) < arg(1))
	case OpUle:
		r = b2u(arg(0) <= arg(1))
	case OpSlt:
		r = b2u(sext64(arg(0), t.Args[0].W) < sext64(arg(1), t.Args[0].W))
	case OpSle:
		r = b2u(sext64(arg(0), t.Args[0].W) <= sext64(arg(1), t.Args[0].W))
	case OpExtract:
		r = (arg(0) >> (t.Val & 0xff)) & mask(t.W)
	case OpConcat:
		r = arg(0)<<t.Args[1].W | arg(1)
	case OpZext:
		r = arg(0)
	case OpSext:
		r = uint64(sext64(arg(0), t.Args[0].W)) & mask(t.W)
	default:
		// binary bv ops: reuse constant folder
		ts := NewTermStore()
		r = ts.Bin(t.Op, ts.Const(t.W, arg(0)), ts.Const(t.W, arg(1))).Val
	}
	memo[t] = r
	return r
}

func mask64(w uint8) uint64 {
	if w == 0 {
		return 1
	}
	return mask(w)
}
