package main

// SMT solver process wrapper: one long-lived process per worker, incremental
// stack kept in sync with the path condition (common-prefix reuse).

import (
	"bufio"
	"fmt"
	"io"
	"os/exec"
	"strconv"
	"strings"
	"time"
)

type Verdict int

const (
	Unsat Verdict = iota
	Sat
	Unknown
)

func (v Verdict) String() string { return [...]string{"unsat", "sat", "unknown"}[v] }

type SolverKind string

const (
	Z3    SolverKind = "z3"
	Z3New SolverKind = "z3-new"
	CVC5  SolverKind = "cvc5"
)

type Solver struct {
	kind    SolverKind
	cmd     *exec.Cmd
	in      io.WriteCloser
	out     *bufio.Reader
	stack   []*Term        // asserted path-condition terms, one per push level
	decl    []map[int]bool // per level: term ids defined at that level
	declAll map[int]int    // term id -> level
	timeout time.Duration
	// stats
	Queries  [3]int
	Time     time.Duration
	Errors   int
	LastErr  string
	buf      strings.Builder
	Dead     bool
	logFile  io.Writer
	nqueries int
}

func NewSolver(kind SolverKind, timeoutMs int) (*Solver, error) {
	var cmd *exec.Cmd
	switch kind {
	case Z3:
		cmd = exec.Command("/usr/bin/z3", "-in", "-smt2")
	case Z3New:
		cmd = exec.Command("z3-new", "-in", "-smt2")
	case CVC5:
		cmd = exec.Command("cvc5", "--incremental", "--lang=smt2", fmt.Sprintf("--tlimit-per=%d", timeoutMs))
	}
	in, err := cmd.StdinPipe()
	if err != nil {
		return nil, err
	}
	out, err := cmd.StdoutPipe()
	if err != nil {
		return nil, err
	}
	cmd.Stderr = nil
	if err := cmd.Start(); err != nil {
		return nil, err
	}
	s := &Solver{kind: kind, cmd: cmd, in: in, out: bufio.NewReaderSize(out, 1<<16), declAll: map[int]int{},
		timeout: time.Duration(timeoutMs) * time.Millisecond}
	s.send("(set-option :print-success false)\n")
	if kind != CVC5 {
		s.send(fmt.Sprintf("(set-option :timeout %d)\n", timeoutMs))
	}
	s.send("(set-option :produce-models true)\n(set-logic QF_BV)\n")
	return s, nil
}

func (s *Solver) Close() {
	if s.cmd != nil && s.cmd.Process != nil {
		s.in.Close()
		s.cmd.Process.Kill()
		s.cmd.Wait()
	}
}

func (s *Solver) send(str string) {
	if s.logFile != nil {
		io.WriteString(s.logFile, str)
	}
	if _, err := io.WriteString(s.in, str); err != nil {
		s.Dead = true
	}
}

func (s *Solver) readLine() string {
	line, err := s.out.ReadString('\n')
	if err != nil {
		s.Dead = true
		return "(error \"solver died\")"
	}
	return strings.TrimSpace(line)
}

// define emits define-fun lines for t's DAG (nodes not yet defined), recording them at level lvl.
func (s *Solver) define(t *Term, lvl int, sb *strings.Builder) {
	if t.Op == OpConst {
		return
	}
	if _, ok := s.declAll[t.ID]; ok {
		return
	}
	for i := 0; i < int(t.N); i++ {
		s.define(t.Args[i], lvl, sb)
	}
	s.declAll[t.ID] = lvl
	s.decl[lvl][t.ID] = true
	if t.Op == OpVar {
		fmt.Fprintf(sb, "(declare-const %s %s)\n", smtName(t), sortStr(t.W))
		return
	}
	fmt.Fprintf(sb, "(define-fun %s () %s ", smtName(t), sortStr(t.W))
	writeApp(sb, t)
	sb.WriteString(")\n")
}

func smtName(t *Term) string {
	if t.Op == OpConst {
		return constStr(t)
	}
	if t.Op == OpVar {
		return "|" + t.Name + "|"
	}
	return "t" + strconv.Itoa(t.ID)
}

func writeApp(sb *strings.Builder, t *Term) {
	switch t.Op {
	case OpExtract:
		fmt.Fprintf(sb, "((_ extract %d %d) %s)", t.Val>>8, t.Val&0xff, smtName(t.Args[0]))
	case OpZext:
		fmt.Fprintf(sb, "((_ zero_extend %d) %s)", t.W-t.Args[0].W, smtName(t.Args[0]))
	case OpSext:
		fmt.Fprintf(sb, "((_ sign_extend %d) %s)", t.W-t.Args[0].W, smtName(t.Args[0]))
	default:
		sb.WriteString("(")
		sb.WriteString(opNames[t.Op])
		for i := 0; i < int(t.N); i++ {
			sb.WriteString(" ")
			sb.WriteString(smtName(t.Args[i]))
		}
		sb.WriteString(")")
	}
}

// sync makes the solver's assertion stack equal to pc.
func (s *Solver) sync(pc []*Term) {
	common := 0
	for common < len(pc) && common < len(s.stack) && pc[common] == s.stack[common] {
		common++
	}
	if n := len(s.stack) - common; n > 0 {
		s.send(fmt.Sprintf("(pop %d)\n", n))
		for l := common; l < len(s.stack); l++ {
			for id := range s.decl[l] {
				delete(s.declAll, id)
			}
		}
		s.stack = s.stack[:common]
		s.decl = s.decl[:common]
	}
	for i := common; i < len(pc); i++ {
		s.pushAssert(pc[i])
	}
}

func (s *Solver) pushAssert(t *Term) {
	s.buf.Reset()
	s.buf.WriteString("(push 1)\n")
	lvl := len(s.stack)
	s.decl = append(s.decl, map[int]bool{})
	s.define(t, lvl, &s.buf)
	fmt.Fprintf(&s.buf, "(assert %s)\n", smtName(t))
	s.stack = append(s.stack, t)
	s.send(s.buf.String())
}

func (s *Solver) popOne() {
	l := len(s.stack) - 1
	s.send("(pop 1)\n")
	for id := range s.decl[l] {
		delete(s.declAll, id)
	}
	s.stack = s.stack[:l]
	s.decl = s.decl[:l]
}

func (s *Solver) checkSat() Verdict {
	t0 := time.Now()
	s.send("(check-sat)\n")
	v := Unknown
	for {
		line := s.readLine()
		if strings.HasPrefix(line, "(error") {
			s.Errors++
			s.LastErr = line
			if s.Dead {
				break
			}
			continue
		}
		switch line {
		case "sat":
			v = Sat
		case "unsat":
			v = Unsat
		case "unknown", "timeout":
			v = Unknown
		default:
			continue
		}
		break
	}
	s.Time += time.Since(t0)
	s.Queries[v]++
	s.nqueries++
	return v
}

// Check decides satisfiability of pc ∧ extra (extra may be nil).  If vars is
// non-nil and the result is sat, their model values are returned.
func (s *Solver) Check(pc []*Term, extra *Term, vars []*Term) (Verdict, map[string]uint64) {
	if s.Dead {
		return Unknown, nil
	}
	s.sync(pc)
	if extra != nil {
		if extra.IsFalse() {
			return Unsat, nil
		}
		s.pushAssert(extra)
	}
	errBefore := s.Errors
	v := s.checkSat()
	if s.Errors != errBefore {
		v = Unknown // any (error line makes the query inconclusive
	}
	var model map[string]uint64
	if v == Sat && len(vars) > 0 {
		model = s.getValues(vars)
	}
	if extra != nil {
		s.popOne()
	}
	return v, model
}

func (s *Solver) getValues(vars []*Term) map[string]uint64 {
	// make sure every var is declared (unconstrained vars may not be)
	s.buf.Reset()
	lvl := len(s.stack) - 1
	if lvl < 0 {
		// declare at a fresh level
		s.send("(push 1)\n")
		s.decl = append(s.decl, map[int]bool{})
		s.stack = append(s.stack, nil)
		lvl = 0
		defer s.popOne()
	}
	needRecheck := false
	for _, v := range vars {
		if _, ok := s.declAll[v.ID]; !ok {
			s.define(v, lvl, &s.buf)
			needRecheck = true
		}
	}
	if needRecheck {
		s.send(s.buf.String())
		if s.checkSat() != Sat {
			return nil
		}
		s.Queries[Sat]-- // bookkeeping: not a separate obligation
	}
	model := map[string]uint64{}
	const chunk = 200
	for i := 0; i < len(vars); i += chunk {
		j := i + chunk
		if j > len(vars) {
			j = len(vars)
		}
		var sb strings.Builder
		sb.WriteString("(get-value (")
		for _, v := range vars[i:j] {
			sb.WriteString(smtName(v))
			sb.WriteString(" ")
		}
		sb.WriteString("))\n")
		s.send(sb.String())
		txt := s.readSexp()
		parseModel(txt, model)
	}
	return model
}

// readSexp reads a balanced s-expression from the solver output.
func (s *Solver) readSexp() string {
	var sb strings.Builder
	depth := 0
	started := false
	inBar := false
	for {
		line, err := s.out.ReadString('\n')
		if err != nil {
			s.Dead = true
			return sb.String()
		}
		sb.WriteString(line)
		for _, c := range line {
			if c == '|' {
				inBar = !inBar
				continue
			}
			if inBar {
				continue
			}
			if c == '(' {
				depth++
				started = true
			} else if c == ')' {
				depth--
			}
		}
		if started && depth <= 0 {
			return sb.String()
		}
	}
}

// parseModel parses ((|name| #x..) (|n2| #b..) (b true)) into model.
func parseModel(txt string, model map[string]uint64) {
	i := 0
	n := len(txt)
	for i < n {
		// find "(" followed by a name
		if txt[i] != '(' {
			i++
			continue
		}
		i++
		for i < n && (txt[i] == ' ' || txt[i] == '\n') {
			i++
		}
		if i >= n || txt[i] == '(' {
			continue
		}
		var name string
		if txt[i] == '|' {
			j := strings.IndexByte(txt[i+1:], '|')
			if j < 0 {
				return
			}
			name = txt[i+1 : i+1+j]
			i = i + 1 + j + 1
		} else {
			j := i
			for j < n && txt[j] != ' ' && txt[j] != ')' {
				j++
			}
			name = txt[i:j]
			i = j
		}
		for i < n && (txt[i] == ' ' || txt[i] == '\n') {
			i++
		}
		j := i
		for j < n && txt[j] != ')' {
			j++
		}
		val := strings.TrimSpace(txt[i:j])
		i = j
		switch {
		case val == "true":
			model[name] = 1
		case val == "false":
			model[name] = 0
		case strings.HasPrefix(val, "#x"):
			v, _ := strconv.ParseUint(val[2:], 16, 64)
			model[name] = v
		case strings.HasPrefix(val, "#b"):
			v, _ := strconv.ParseUint(val[2:], 2, 64)
			model[name] = v
		case strings.HasPrefix(val, "(_ bv"):
			f := strings.Fields(val[5:])
			v, _ := strconv.ParseUint(f[0], 10, 64)
			model[name] = v
		}
	}
}

// Reset clears the solver state completely (used when the term store is reset).
func (s *Solver) Reset() {
	if n := len(s.stack); n > 0 {
		s.send(fmt.Sprintf("(pop %d)\n", n))
	}
	s.stack = nil
	s.decl = nil
	s.declAll = map[int]int{}
}

// oneShot checks a closed list of assertions in a fresh scope on this solver
// (used for cross-solver self checks).
func (s *Solver) oneShot(terms []*Term) Verdict {
	s.Reset()
	return func() Verdict { v, _ := s.Check(terms, nil, nil); s.Reset(); return v }()
}
