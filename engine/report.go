package main

// Evidence, replay vectors, native replay and VIOLATION / KNOWN-FINDING lines.

import (
	"bytes"
	"crypto/sha256"
	"encoding/hex"
	"encoding/json"
	"fmt"
	"os"
	"os/exec"
	"path/filepath"
	"sort"
	"strings"
	"time"
)

type HarnessReport struct {
	Name           string           `json:"harness"`
	What           string           `json:"what"`
	Params         map[string]int64 `json:"bounds"`
	Paths          int64            `json:"paths"`
	PathsOK        int64            `json:"paths_completed"`
	PathsPruned    int64            `json:"paths_pruned_by_assumption"`
	PathsViolation int64            `json:"paths_violating"`
	PathsInconcl   int64            `json:"paths_inconclusive"`
	SymPaths       int64            `json:"paths_with_symbolic_decisions"`
	Obligations    int64            `json:"assertions_checked"`
	ObligationsSym int64            `json:"assertions_decided_by_solver"`
	Queries        map[string]int   `json:"solver_queries"`
	SolverS        float64          `json:"solver_s"`
	WallS          float64          `json:"wall_s"`
	Steps          int64            `json:"ssa_instructions_executed"`
	MaxDecisions   int              `json:"max_decision_depth"`
	Reach          map[string]int64 `json:"reach_markers"`
	KnownHits      map[string]int64 `json:"known_finding_region_paths,omitempty"`
	UnwindExceeded int              `json:"unwind_exceeded"`
	SplitLimit     int              `json:"split_limit_hit"`
	Goroutines     int              `json:"max_goroutines_spawned,omitempty"`
	Sched          bool             `json:"schedules_explored,omitempty"`
	Preempt        int              `json:"preemption_bound,omitempty"`
	Budget         string           `json:"budget_exceeded,omitempty"`
	Samples        [][]InputVal     `json:"-"`
	Confirmed      int              `json:"violations_replayed_natively"`
	SelfTestsRun   int              `json:"translator_selftest_paths_compared_with_native_run"`
	SelfTestsOK    int              `json:"translator_selftest_paths_agreeing"`
	SolverErrors   int              `json:"solver_error_lines"`
}

type Report struct {
	Prop         string
	Tier         string
	Seed         int64
	Spec         *CheckSpec
	LoadS        float64
	Workers      int
	Harnesses    []*HarnessReport
	Lines        []string
	Inconclusive []string
	Notes        []string
	WallS        float64
	Exit         int
	Violations   int
	KnownLines   map[string]bool
	KnownWhat    map[string]string
	funcs        map[string]int64
	intr         map[string]int64
	samples      []interface{}
}

func (r *Report) totalPaths() int64 {
	var n int64
	for _, h := range r.Harnesses {
		n += h.Paths
	}
	return n
}

func (r *Report) totalObligations() int64 {
	var n int64
	for _, h := range r.Harnesses {
		n += h.Obligations
	}
	return n
}

func (r *Report) addHarness(hs HarnessSpec, ex *Explorer, wall time.Duration, params map[string]int64) *HarnessReport {
	hr := &HarnessReport{Name: hs.Name, What: hs.What, Params: params, Paths: ex.paths, PathsOK: ex.pathsByStatus[PathOK],
		PathsPruned:    ex.pathsByStatus[PathPruned] + ex.pathsByStatus[PathInfeasible],
		PathsViolation: ex.pathsByStatus[PathViolation], PathsInconcl: ex.pathsByStatus[PathInconclusive],
		SymPaths: ex.symPaths, Obligations: ex.asserts, ObligationsSym: ex.assertsSym,
		Queries: map[string]int{"unsat": ex.queries[Unsat], "sat": ex.queries[Sat], "unknown": ex.queries[Unknown]},
		SolverS: ex.solverTime.Seconds(), WallS: wall.Seconds(), Steps: ex.steps, MaxDecisions: ex.maxDecisions,
		Reach: ex.reach, KnownHits: ex.knownHits, Goroutines: ex.maxGoroutines, Sched: hs.Sched, Budget: ex.budgetExceeded,
		Samples: ex.samples, SolverErrors: ex.solverErrors}
	for _, m := range ex.inconclusive {
		if strings.HasPrefix(m, "UNWIND") {
			hr.UnwindExceeded++
		}
		if strings.HasPrefix(m, "SPLIT-LIMIT") {
			hr.SplitLimit++
		}
	}
	if hs.Sched {
		hr.Preempt = ex.cfg.Preempt
	}
	r.Harnesses = append(r.Harnesses, hr)
	if r.funcs == nil {
		r.funcs = map[string]int64{}
		r.intr = map[string]int64{}
	}
	for k, v := range ex.funcsHit {
		r.funcs[k] += v
	}
	for k, v := range ex.intrHit {
		r.intr[k] += v
	}
	for _, s := range ex.samples {
		if len(r.samples) < 6 {
			r.samples = append(r.samples, map[string]interface{}{"harness": hs.Name, "path_model": compactInputs(s)})
		}
	}
	return hr
}

func compactInputs(ins []InputVal) string {
	// group consecutive byte-array elements
	var sb strings.Builder
	i := 0
	for i < len(ins) {
		in := ins[i]
		if j := strings.IndexByte(in.Tag, '['); j > 0 && in.W == 8 {
			base := in.Tag[:j]
			var bs []byte
			for i < len(ins) && strings.HasPrefix(ins[i].Tag, base+"[") {
				bs = append(bs, byte(ins[i].Val))
				i++
			}
			fmt.Fprintf(&sb, "%s=%x ", base, bs)
			continue
		}
		fmt.Fprintf(&sb, "%s=%d ", in.Tag, in.Val)
		i++
	}
	s := strings.TrimSpace(sb.String())
	if len(s) > 600 {
		s = s[:600] + "…"
	}
	return s
}

type ReplayVector struct {
	Property string           `json:"property"`
	Harness  string           `json:"harness"`
	Pkg      string           `json:"pkg"`
	Kind     string           `json:"kind"`
	Label    string           `json:"label"`
	Detail   string           `json:"detail"`
	Values   []InputVal       `json:"values"`
	Dict     []DictEntry      `json:"dict,omitempty"`
	Params   map[string]int64 `json:"params"`
	Known    []string         `json:"known_active,omitempty"`
	Native   string           `json:"native_output,omitempty"`
	Outcome  string           `json:"native_outcome,omitempty"`
	Attempts int              `json:"native_attempts,omitempty"`
}

// classify replays each violation natively and emits VIOLATION / KNOWN-FINDING lines.
func (r *Report) classify(P *Program, hs HarnessSpec, ex *Explorer, hr *HarnessReport, vd, repo string, knownIDs map[string]bool, noReplay bool) int {
	if len(ex.violations) == 0 {
		return 0
	}
	if r.KnownLines == nil {
		r.KnownLines = map[string]bool{}
	}
	// deduplicate by (label, known set)
	seen := map[string]int{}
	exit := 0
	var activeKnown []string
	for id := range knownIDs {
		activeKnown = append(activeKnown, id)
	}
	sort.Strings(activeKnown)
	sort.Slice(ex.violations, func(i, j int) bool {
		return ex.violations[i].Label+fmtInputs(ex.violations[i].Inputs) < ex.violations[j].Label+fmtInputs(ex.violations[j].Inputs)
	})
	for _, v := range ex.violations {
		key := v.Kind + "|" + v.Label + "|" + strings.Join(v.Known, ",")
		seen[key]++
		if seen[key] > 2 {
			continue
		}
		var vals []InputVal
		for _, in := range v.Inputs {
			if strings.HasPrefix(in.Tag, "dict.") || strings.HasPrefix(in.Tag, "rand.") {
				continue
			}
			vals = append(vals, in)
		}
		rv := &ReplayVector{Property: r.Prop, Harness: hs.Name, Pkg: hs.Pkg, Kind: v.Kind, Label: v.Label, Detail: v.Detail,
			Values: vals, Dict: v.Dict, Params: hr.Params, Known: activeKnown}
		data, _ := json.MarshalIndent(rv, "", " ")
		h := sha256.Sum256(data)
		dir := filepath.Join(vd, "replays", r.Prop)
		os.MkdirAll(dir, 0o755)
		path := filepath.Join(dir, fmt.Sprintf("%s-%s.json", hs.Name, hex.EncodeToString(h[:5])))
		os.WriteFile(path, data, 0o644)
		if len(v.Known) > 0 {
			// attributed to a listed finding; still replayed so that the line is only printed for a real failure
			outcome, out := "skipped", ""
			if !noReplay {
				outcome, out = nativeReplay(vd, repo, hs, path)
			}
			rv.Outcome, rv.Native = outcome, tail(out, 1500)
			data, _ = json.MarshalIndent(rv, "", " ")
			os.WriteFile(path, data, 0o644)
			for _, id := range v.Known {
				if outcome == "fail" || noReplay {
					line := fmt.Sprintf("KNOWN-FINDING: property=%s %s: %s [%s; replay=%s]", r.Prop, id, r.KnownWhat[id], v.Label, path)
					if !r.KnownLines[id] {
						r.KnownLines[id] = true
						r.Lines = append(r.Lines, line)
					}
				} else if outcome != "fail" {
					r.Inconclusive = append(r.Inconclusive, fmt.Sprintf("%s: counterexample in known region %s did not reproduce natively (%s): %s", hs.Name, id, outcome, path))
					if exit == 0 {
						exit = 2
					}
				}
			}
			continue
		}
		if noReplay {
			r.Lines = append(r.Lines, fmt.Sprintf("CANDIDATE (not replayed): property=%s harness=%s %s: %s  inputs: %s", r.Prop, hs.Name, v.Label, v.Detail, compactInputs(vals)))
			if exit == 0 {
				exit = 2
			}
			continue
		}
		outcome, out := nativeReplay(vd, repo, hs, path)
		// a counterexample that depends on an interleaving inside the library cannot be forced natively
		// (the replay drives the harness script, not the Go scheduler): the native run is repeated, each
		// in a fresh process, until the failure shows or the attempts are used up
		for attempt := 1; hs.Sched && outcome == "pass" && attempt < nativeSchedAttempts; attempt++ {
			outcome, out = nativeReplay(vd, repo, hs, path)
			rv.Attempts = attempt + 1
		}
		rv.Outcome, rv.Native = outcome, tail(out, 1500)
		data, _ = json.MarshalIndent(rv, "", " ")
		os.WriteFile(path, data, 0o644)
		switch outcome {
		case "fail":
			hr.Confirmed++
			r.Violations++
			r.Lines = append(r.Lines, fmt.Sprintf("VIOLATION property=%s replay=%s", r.Prop, path))
			r.Lines = append(r.Lines, fmt.Sprintf("  harness=%s kind=%s %s: %s", hs.Name, v.Kind, v.Label, firstLine(v.Detail)))
			exit = 1
		default:
			tag := "ENCODING-MISMATCH"
			if hs.Sched {
				tag = fmt.Sprintf("NOT-REPRODUCED in %d native runs (the counterexample needs a particular interleaving inside the library, which the native replay cannot force)", nativeSchedAttempts)
			}
			r.Inconclusive = append(r.Inconclusive, fmt.Sprintf("%s: %s: counterexample for %q did not reproduce natively (%s): %s", hs.Name, tag, v.Label, outcome, path))
			if exit == 0 {
				exit = 2
			}
		}
	}
	return exit
}

// selfTest compares, for a few completed sample paths, the values the harness observed in the engine
// (evaluated under the path's model) with what the native build observes on the same inputs.
func (r *Report) selfTest(hs HarnessSpec, ex *Explorer, hr *HarnessReport, vd, repo string, knownIDs map[string]bool) int {
	exit := 0
	var activeKnown []string
	for id := range knownIDs {
		activeKnown = append(activeKnown, id)
	}
	sort.Strings(activeKnown)
	for i, st := range ex.selfTests {
		var vals []InputVal
		for _, in := range st.Inputs {
			if strings.HasPrefix(in.Tag, "dict.") || strings.HasPrefix(in.Tag, "rand.") {
				continue
			}
			vals = append(vals, in)
		}
		rv := &ReplayVector{Property: r.Prop, Harness: hs.Name, Pkg: hs.Pkg, Kind: "selftest", Label: "translator self-test", Values: vals, Dict: st.Dict, Params: hr.Params, Known: activeKnown}
		data, _ := json.MarshalIndent(rv, "", " ")
		dir := filepath.Join(vd, "replays", r.Prop)
		os.MkdirAll(dir, 0o755)
		path := filepath.Join(dir, fmt.Sprintf("%s-selftest%d-p%d.json", hs.Name, i, os.Getpid())) // (unique per run: two runs of one property may overlap)
		os.WriteFile(path, data, 0o644)
		outcome, out := nativeReplay(vd, repo, hs, path)
		hr.SelfTestsRun++
		var got []ObsVal
		for _, line := range strings.Split(out, "\n") {
			if j := strings.Index(line, "VERIF-OBS "); j >= 0 {
				json.Unmarshal([]byte(line[j+len("VERIF-OBS "):]), &got)
			}
		}
		ok := outcome == "pass" && len(got) == len(st.Obs)
		if ok {
			for k := range got {
				if got[k].Tag != st.Obs[k].Tag || len(got[k].Vals) != len(st.Obs[k].Vals) {
					ok = false
					break
				}
				for q := range got[k].Vals {
					if got[k].Vals[q] != st.Obs[k].Vals[q] {
						ok = false
					}
				}
			}
		}
		if ok {
			hr.SelfTestsOK++
			os.Remove(path)
			continue
		}
		want, _ := json.Marshal(st.Obs)
		have, _ := json.Marshal(got)
		r.Inconclusive = append(r.Inconclusive, fmt.Sprintf("%s: SELFTEST-MISMATCH (engine and native build disagree on a completed path; native outcome %s): %s engine=%s native=%s", hs.Name, outcome, path, trunc(string(want), 6000), trunc(string(have), 6000)))
		exit = 2
	}
	return exit
}

func trunc(s string, n int) string {
	if len(s) > n {
		return s[:n] + "…"
	}
	return s
}

func tail(s string, n int) string {
	if len(s) > n {
		return "…" + s[len(s)-n:]
	}
	return s
}

// nativeSchedAttempts: native runs tried for a schedule-dependent counterexample before giving up
const nativeSchedAttempts = 25

// nativeReplay runs the harness natively on the vector with `go test -overlay`.
// outcome: "fail" (assertion or panic reproduced), "pass", "diverged", "builderror".
func nativeReplay(vd, repo string, hs HarnessSpec, vecPath string) (string, string) {
	tmp, err := os.MkdirTemp("", "symgo-replay-")
	if err != nil {
		return "builderror", err.Error()
	}
	defer os.RemoveAll(tmp)
	hdir := filepath.Join(vd, "harness", hs.Pkg)
	ents, err := os.ReadDir(hdir)
	if err != nil {
		return "builderror", err.Error()
	}
	pkgName := filepath.Base(hs.Pkg)
	repl := map[string]string{}
	for _, e := range ents {
		n := e.Name()
		if !strings.HasSuffix(n, ".go") || n == "zz_verif_rt.go" || strings.HasPrefix(n, "zz_verif_gen_") {
			continue
		}
		if _, gone := droppedHarness[n]; gone {
			continue
		}
		repl[filepath.Join(repo, hs.Pkg, n)] = filepath.Join(hdir, n)
	}
	// the package's own test files are replaced by empty stubs: their init functions (e.g. diam/sm's
	// common_test.go loads extra dictionaries into dict.Default) must not leak into the replay
	if tests, err := filepath.Glob(filepath.Join(repo, hs.Pkg, "*_test.go")); err == nil {
		for i, tf := range tests {
			if strings.HasPrefix(filepath.Base(tf), "zz_") {
				continue
			}
			src, err := os.ReadFile(tf)
			if err != nil {
				continue
			}
			pkgClause := "package " + pkgName
			for _, line := range strings.Split(string(src), "\n") {
				if strings.HasPrefix(line, "package ") {
					pkgClause = strings.TrimSpace(line)
					break
				}
			}
			stub := filepath.Join(tmp, fmt.Sprintf("stub%d_test.go", i))
			os.WriteFile(stub, []byte(pkgClause+"\n"), 0o644)
			repl[tf] = stub
		}
	}
	// generated overlay files of other packages (e.g. the dict package's embedded XML accessor)
	filepath.Walk(genDir, func(p string, info os.FileInfo, err error) error {
		if err == nil && !info.IsDir() && strings.HasPrefix(filepath.Base(p), "zz_verif_gen_") {
			rel, _ := filepath.Rel(genDir, p)
			repl[filepath.Join(repo, rel)] = p
		}
		return nil
	})
	entry := fmt.Sprintf("package %s\n\nfunc zzVerifEntry() { %s() }\n", pkgName, hs.Name)
	ep := filepath.Join(tmp, "zz_verif_entry.go")
	os.WriteFile(ep, []byte(entry), 0o644)
	repl[filepath.Join(repo, hs.Pkg, "zz_verif_entry.go")] = ep
	ov, _ := json.Marshal(map[string]interface{}{"Replace": repl})
	ovp := filepath.Join(tmp, "overlay.json")
	os.WriteFile(ovp, ov, 0o644)
	cmd := exec.Command("go", "test", "-v", "-vet=off", "-count=1", "-timeout", "300s", "-overlay", ovp, "-run", "^TestVerifReplay$", "./"+hs.Pkg)
	cmd.Dir = repo
	cmd.Env = append(os.Environ(), "GOFLAGS=-mod=mod", "GOPROXY=off", "GOSUMDB=off", "GOTOOLCHAIN=local", "VERIF_REPLAY="+vecPath, "GOCACHE="+goCache())
	var buf bytes.Buffer
	cmd.Stdout = &buf
	cmd.Stderr = &buf
	err = cmd.Run()
	out := buf.String()
	switch {
	case strings.Contains(out, "VERIF-REPLAY-DIVERGED"):
		return "diverged", out
	case strings.Contains(out, "VERIF-ASSERT") || strings.Contains(out, "VERIF-PANIC") || strings.Contains(out, "fatal error:") || strings.Contains(out, "panic:"):
		return "fail", out
	case strings.Contains(out, "VERIF-REPLAY-OK"):
		return "pass", out
	case err != nil:
		return "builderror", out
	}
	return "pass", out
}

func goCache() string {
	if c := os.Getenv("GOCACHE"); c != "" {
		return c
	}
	out, err := exec.Command("go", "env", "GOCACHE").Output()
	if err == nil {
		return strings.TrimSpace(string(out))
	}
	return filepath.Join(os.TempDir(), "go-build")
}

func (r *Report) write(path string, P *Program) error {
	os.MkdirAll(filepath.Dir(path), 0o755)
	var evals, nontrivial, obligations, discharged int64
	var solverS float64
	queries := map[string]int{}
	for _, h := range r.Harnesses {
		evals += h.Paths
		nontrivial += h.SymPaths
		obligations += h.Obligations
		discharged += h.Obligations - h.PathsViolation
		solverS += h.SolverS
		for k, v := range h.Queries {
			queries[k] += v
		}
	}
	// functions interpreted (repo functions with source hash of their file)
	type fnRec struct {
		Name  string `json:"fn"`
		Calls int64  `json:"calls"`
	}
	var fns []fnRec
	files := map[string]string{}
	for name, n := range r.funcs {
		if strings.Contains(name, repoModule) && !strings.Contains(name, "zz") {
			fns = append(fns, fnRec{strings.ReplaceAll(name, repoModule+"/", ""), n})
		}
	}
	sort.Slice(fns, func(i, j int) bool { return fns[i].Name < fns[j].Name })
	for _, pp := range P.ppkgs {
		if !isRepoPkg(pp.PkgPath) {
			continue
		}
		for _, f := range pp.GoFiles {
			if strings.HasPrefix(f, P.repoDir) && !strings.Contains(f, "zz_verif") {
				rel, _ := filepath.Rel(P.repoDir, f)
				files[rel] = P.fileHash(f)
			}
		}
	}
	var stdFns int
	for name := range r.funcs {
		if !strings.Contains(name, repoModule) {
			stdFns++
		}
	}
	var intr []string
	for k := range r.intr {
		intr = append(intr, k)
	}
	sort.Strings(intr)
	samples := r.samples
	if len(samples) == 0 {
		samples = append(samples, map[string]interface{}{"note": "no path produced a model sample (all paths concrete or violating)"})
	}
	level := "other"
	cov := map[string]interface{}{
		"explanation":                  "bounded symbolic execution of the real code: go/ssa of /repo's current working tree (plus the needed standard-library bodies) is interpreted over bit-vector terms; every branch on symbolic data forks after a solver feasibility query, every vAssert / implicit panic check is a solver query (unsat = holds for every value within the bounds below). " + r.Spec.Explanation,
		"evaluations":                  evals,
		"distinct_nontrivial":          nontrivial,
		"rule":                         "one evaluation = one complete execution path of a harness (a distinct decision vector); non-trivial = the path took at least one decision on symbolic data or discharged at least one solver-decided assertion. " + r.Spec.Rule,
		"samples":                      samples,
		"obligations":                  obligations,
		"discharged":                   discharged,
		"exhaustive":                   r.Exit == 0,
		"harnesses":                    r.Harnesses,
		"queries":                      queries,
		"solver_s":                     solverS,
		"solver":                       "z3 4.8.12 (QF_BV, incremental, one process per worker)",
		"workers":                      r.Workers,
		"load_s":                       r.LoadS,
		"outside_bounds":               r.Spec.Outside,
		"functions_encoded":            fns,
		"stdlib_functions_interpreted": stdFns,
		"stubs_hit":                    intr,
		"source_files_sha256_prefix":   files,
		"notes":                        r.Notes,
		"inconclusive":                 r.Inconclusive,
		"known_findings_reported":      keys(r.KnownLines),
		"exit":                         r.Exit,
	}
	ev := map[string]interface{}{
		"property_id": r.Prop,
		"tier":        r.Tier,
		"seed":        r.Seed,
		"level":       level,
		"coverage":    cov,
		"assumptions": append(append([]string{}, r.Spec.Assumptions...), "stubs listed in coverage.stubs_hit behave per DESIGN.md §2.9", "z3 verdicts are trusted (cross-checked in thorough self-check where stated)"),
		"wall_s":      r.WallS,
		"violations":  r.Violations,
	}
	data, err := json.MarshalIndent(ev, "", " ")
	if err != nil {
		return err
	}
	return os.WriteFile(path, data, 0o644)
}

func keys(m map[string]bool) []string {
	out := []string{}
	for k := range m {
		out = append(out, k)
	}
	sort.Strings(out)
	return out
}
