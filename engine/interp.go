package main

// Core of the symbolic interpreter for go/ssa.

import (
	"fmt"
	"go/constant"
	"go/token"
	"go/types"
	"math"
	"strings"

	"golang.org/x/tools/go/ssa"
	"golang.org/x/tools/go/types/typeutil"
)

type FuncInfo struct {
	idx   map[ssa.Value]int
	nregs int
	name  string
}

type World struct {
	P          *Program
	prog       *ssa.Program
	ts         *TermStore
	solver     *Solver
	globals    map[*ssa.Global]*Obj
	slotCache  map[types.Type]int
	finfo      map[*ssa.Function]*FuncInfo
	nextObj    int
	inPath     bool
	undo       []undoRec
	allocSlots int64
	canon      typeutil.Map
	initDone   map[string]bool
	cfg        *Config
	funcsHit   map[*ssa.Function]int64
	intrHit    map[string]int64
	errStringT types.Type
	preChans   []*ChanObj
	rtypeTag   types.Type
}

type deferRec struct {
	fn   *FuncV
	args []Value
	intr string
	site ssa.Instruction
}

type Frame struct {
	fn        *ssa.Function
	info      *FuncInfo
	regs      []Value
	block     *ssa.BasicBlock
	prev      *ssa.BasicBlock
	pc        int
	defers    []*deferRec
	callSite  ssa.Value // register in the caller receiving the result (nil if none)
	isDefer   bool      // this frame is a deferred call
	deferBy   *Frame    // frame that deferred it
	unwinding bool      // panicking through this frame (running its defers)
	runDefers bool      // executing a RunDefers instruction
	syncRet   bool      // stop nested callSync loop when this frame returns
	result    Value
	resume    *waiter
	depth     int
}

type panicState struct {
	val         Value // *Iface
	desc        string
	recovered   bool
	recoveredBy *Frame
	implicit    bool
}

type G struct {
	id      int
	frames  []*Frame
	status  int // gRunnable, gBlocked, gDone
	panic   *panicState
	waitFn  func() bool // enabledness test while blocked
	isMain  bool
	waitTag string
	lib     bool
	name    string
}

const (
	gRunnable = iota
	gBlocked
	gDone
)

type stepResult int

const (
	stOK stepResult = iota
	stBlocked
	stYield
	stEnd // path ended
)

// pathAbort is panicked (Go-level) to end the current path.
type pathAbort struct {
	status PathStatus
	msg    string
}

type PathStatus int

const (
	PathOK PathStatus = iota
	PathPruned
	PathViolation
	PathInconclusive
	PathInfeasible
)

func (w *World) canonT(t types.Type) types.Type {
	if c := w.canon.At(t); c != nil {
		return c.(types.Type)
	}
	w.canon.Set(t, t)
	return t
}

func (w *World) info(fn *ssa.Function) *FuncInfo {
	if fi, ok := w.finfo[fn]; ok {
		return fi
	}
	fi := &FuncInfo{idx: map[ssa.Value]int{}, name: fn.String()}
	n := 0
	for _, p := range fn.Params {
		fi.idx[p] = n
		n++
	}
	for _, p := range fn.FreeVars {
		fi.idx[p] = n
		n++
	}
	for _, b := range fn.Blocks {
		for _, ins := range b.Instrs {
			if v, ok := ins.(ssa.Value); ok {
				fi.idx[v] = n
				n++
			}
		}
	}
	fi.nregs = n
	w.finfo[fn] = fi
	return fi
}

func (it *Interp) abort(st PathStatus, format string, a ...interface{}) {
	panic(pathAbort{st, fmt.Sprintf(format, a...)})
}

func (it *Interp) unsupported(format string, a ...interface{}) {
	msg := fmt.Sprintf(format, a...)
	if it.cur != nil && len(it.cur.frames) > 0 {
		fr := it.cur.frames[len(it.cur.frames)-1]
		msg += " in " + fr.fn.String()
		if fr.block != nil && fr.pc < len(fr.block.Instrs) {
			msg += " at " + it.prog.Fset.Position(fr.block.Instrs[fr.pc].Pos()).String()
		}
	}
	panic(pathAbort{PathInconclusive, "UNSUPPORTED: " + msg})
}

// ---- operand evaluation ----

func (it *Interp) eval(fr *Frame, v ssa.Value) Value {
	switch x := v.(type) {
	case *ssa.Const:
		return it.constVal(x)
	case *ssa.Global:
		return &Ptr{obj: it.globalObj(x)}
	case *ssa.Function:
		return &FuncV{fn: x}
	case *ssa.Builtin:
		return &FuncV{intr: "builtin:" + x.Name()}
	}
	i, ok := fr.info.idx[v]
	if !ok {
		panic(fmt.Sprintf("engine: no register for %s in %s", v.Name(), fr.fn))
	}
	if s, isStr := fr.regs[i].(*Str); isStr && s != nil && s.view != nil {
		return it.viewString(s.view)
	}
	return fr.regs[i]
}

// viewString reads the current contents of the memory an unsafe.String value points at.
func (it *Interp) viewString(sl *Slice) *Str {
	cells := make([]*Term, sl.len)
	for i := range cells {
		if t, ok := sl.obj.get(sl.off + i).(*Term); ok && t != nil {
			cells[i] = it.ts.Resize(t, 8, false)
		} else {
			cells[i] = it.ts.Const(8, 0)
		}
	}
	return &Str{cells: cells, view: sl}
}

func (it *Interp) setReg(fr *Frame, v ssa.Value, val Value) {
	fr.regs[fr.info.idx[v]] = val
}

func (w *World) globalObj(g *ssa.Global) *Obj {
	if o, ok := w.globals[g]; ok {
		return o
	}
	wasIn := w.inPath
	w.inPath = false // globals are pre-path objects (undo-logged)
	o := w.newTypedObj(g.Type().(*types.Pointer).Elem(), "global "+g.String())
	w.inPath = wasIn
	w.globals[g] = o
	return o
}

func (it *Interp) constVal(c *ssa.Const) Value {
	t := c.Type()
	if c.Value == nil {
		return it.zero(t)
	}
	switch u := t.Underlying().(type) {
	case *types.Basic:
		switch {
		case u.Info()&types.IsBoolean != 0:
			return it.ts.Bool(constant.BoolVal(c.Value))
		case u.Info()&types.IsString != 0:
			return concStr(constant.StringVal(c.Value))
		case u.Info()&types.IsInteger != 0:
			wd, _, _ := intWidth(t)
			if i, ok := constant.Int64Val(constant.ToInt(c.Value)); ok {
				return it.ts.Const(wd, uint64(i))
			}
			u64, _ := constant.Uint64Val(constant.ToInt(c.Value))
			return it.ts.Const(wd, u64)
		case u.Info()&types.IsFloat != 0:
			f, _ := constant.Float64Val(c.Value)
			if u.Kind() == types.Float32 {
				return it.ts.Const(32, uint64(math.Float32bits(float32(f))))
			}
			return it.ts.Const(64, math.Float64bits(f))
		}
	}
	it.unsupported("constant of type %s", t)
	return nil
}

// ---- the step function ----

func (it *Interp) top(g *G) *Frame { return g.frames[len(g.frames)-1] }

func (it *Interp) pushFrame(g *G, fn *ssa.Function, args []Value, free []Value, site ssa.Value) *Frame {
	if fn.Blocks == nil {
		it.unsupported("call to body-less function %s", fn)
	}
	fi := it.info(fn)
	fr := &Frame{fn: fn, info: fi, regs: make([]Value, fi.nregs), block: fn.Blocks[0], callSite: site, depth: len(g.frames) + 1}
	if len(args) != len(fn.Params) {
		panic(fmt.Sprintf("engine: %s called with %d args, wants %d", fn, len(args), len(fn.Params)))
	}
	copy(fr.regs, args)
	copy(fr.regs[len(args):], free)
	g.frames = append(g.frames, fr)
	if fr.depth > it.maxDepth {
		it.maxDepth = fr.depth
	}
	if fr.depth > it.cfg.MaxCallDepth {
		it.abort(PathInconclusive, "call depth %d exceeds cap in %s", fr.depth, fn)
	}
	it.funcsHit[fn]++
	return fr
}

// step executes one instruction of g's top frame.
func (it *Interp) step(g *G) stepResult {
	fr := it.top(g)
	if fr.unwinding {
		return it.unwind(g)
	}
	ins := fr.block.Instrs[fr.pc]
	it.steps++
	if it.steps > it.cfg.MaxSteps {
		it.abort(PathInconclusive, "UNWIND: step budget %d exhausted", it.cfg.MaxSteps)
	}
	if it.cfg.Trace {
		fmt.Printf("[g%d] %s: %s\n", g.id, fr.fn.Name(), insString(ins))
	}
	switch x := ins.(type) {
	case *ssa.DebugRef:
	case *ssa.Alloc:
		o := it.newTypedObj(x.Type().(*types.Pointer).Elem(), "alloc "+x.Comment)
		it.setReg(fr, x, &Ptr{obj: o})
	case *ssa.BinOp:
		it.setReg(fr, x, it.binop(x.Op, it.eval(fr, x.X), it.eval(fr, x.Y), x.X.Type(), x.Y.Type()))
	case *ssa.UnOp:
		if x.Op == token.ARROW {
			v, ok, st := it.chanRecv(g, fr, it.eval(fr, x.X), x.X.Type())
			if st == stBlocked {
				return stBlocked
			}
			if x.CommaOk {
				it.setReg(fr, x, Tuple{v, it.ts.Bool(ok)})
			} else {
				it.setReg(fr, x, v)
			}
		} else {
			it.setReg(fr, x, it.unop(x, it.eval(fr, x.X)))
		}
	case *ssa.Call:
		return it.doCall(g, fr, x, &x.Call, callNormal)
	case *ssa.Defer:
		return it.doCall(g, fr, x, &x.Call, callDefer)
	case *ssa.Go:
		return it.doCall(g, fr, x, &x.Call, callGo)
	case *ssa.ChangeInterface:
		it.setReg(fr, x, it.eval(fr, x.X))
	case *ssa.ChangeType:
		it.setReg(fr, x, it.eval(fr, x.X))
	case *ssa.Convert:
		it.setReg(fr, x, it.convert(it.eval(fr, x.X), x.X.Type(), x.Type()))
	case *ssa.MakeInterface:
		it.setReg(fr, x, &Iface{typ: it.canonT(x.X.Type()), val: it.eval(fr, x.X)})
	case *ssa.TypeAssert:
		it.setReg(fr, x, it.typeAssert(x, it.eval(fr, x.X)))
	case *ssa.Extract:
		it.setReg(fr, x, it.eval(fr, x.Tuple).(Tuple)[x.Index])
	case *ssa.Field:
		agg := it.eval(fr, x.X).(Agg)
		st := x.X.Type().Underlying().(*types.Struct)
		off := it.fieldOff(st, x.Field)
		ft := st.Field(x.Field).Type()
		if isAggType(ft) {
			n := it.slots(ft)
			it.setReg(fr, x, Agg(append([]Value(nil), agg[off:off+n]...)))
		} else {
			it.setReg(fr, x, agg[off])
		}
	case *ssa.FieldAddr:
		p := it.eval(fr, x.X).(*Ptr)
		if isNilValue(p) {
			return it.goPanic(g, "nil pointer dereference (field address)")
		}
		st := x.X.Type().Underlying().(*types.Pointer).Elem().Underlying().(*types.Struct)
		it.setReg(fr, x, &Ptr{obj: p.obj, off: p.off + it.fieldOff(st, x.Field)})
	case *ssa.Index:
		return it.doIndex(g, fr, x)
	case *ssa.IndexAddr:
		return it.doIndexAddr(g, fr, x)
	case *ssa.Slice:
		return it.doSlice(g, fr, x)
	case *ssa.Lookup:
		return it.doLookup(g, fr, x)
	case *ssa.MakeMap:
		mt := x.Type().Underlying().(*types.Map)
		it.setReg(fr, x, &MapV{m: it.newMap(mt.Key(), mt.Elem())})
	case *ssa.MakeChan:
		sz := it.eval(fr, x.Size).(*Term)
		n := int(it.concretize(sz, "make chan size"))
		it.setReg(fr, x, &ChanV{c: it.newChan(n, x.Type().Underlying().(*types.Chan).Elem())})
	case *ssa.MakeSlice:
		return it.doMakeSlice(g, fr, x)
	case *ssa.MakeClosure:
		fv := &FuncV{fn: x.Fn.(*ssa.Function)}
		for _, b := range x.Bindings {
			fv.free = append(fv.free, it.eval(fr, b))
		}
		it.setReg(fr, x, fv)
	case *ssa.MapUpdate:
		m := it.eval(fr, x.Map).(*MapV)
		if isNilValue(m) {
			return it.goPanic(g, "assignment to entry in nil map")
		}
		it.mapSet(m.m, it.eval(fr, x.Key), it.eval(fr, x.Value))
	case *ssa.Range:
		it.setReg(fr, x, it.makeRange(it.eval(fr, x.X), x.X.Type()))
	case *ssa.Next:
		it.setReg(fr, x, it.rangeNext(x, it.eval(fr, x.Iter).(*RangeIter)))
	case *ssa.Phi:
		// handled at block entry
	case *ssa.Store:
		p := it.eval(fr, x.Addr).(*Ptr)
		if isNilValue(p) {
			return it.goPanic(g, "nil pointer dereference (store)")
		}
		it.store(p.obj, p.off, x.Val.Type(), it.eval(fr, x.Val))
	case *ssa.Send:
		st := it.chanSend(g, fr, it.eval(fr, x.Chan), it.eval(fr, x.X))
		if st != stOK {
			return st
		}
	case *ssa.Select:
		return it.doSelect(g, fr, x)
	case *ssa.SliceToArrayPointer:
		s := it.eval(fr, x.X).(*Slice)
		n := int(x.Type().Underlying().(*types.Pointer).Elem().Underlying().(*types.Array).Len())
		if isNilValue(s) {
			if n == 0 {
				it.setReg(fr, x, (*Ptr)(nil))
				break
			}
			return it.goPanic(g, "slice to array pointer: nil slice")
		}
		if s.len < n {
			return it.goPanic(g, "slice to array pointer: length too short")
		}
		it.setReg(fr, x, &Ptr{obj: s.obj, off: s.off})
	case *ssa.If:
		c := it.eval(fr, x.Cond).(*Term)
		taken := it.decide(c, "if")
		fr.prev = fr.block
		if taken {
			fr.block = fr.block.Succs[0]
		} else {
			fr.block = fr.block.Succs[1]
		}
		it.enterBlock(fr)
		return stOK
	case *ssa.Jump:
		fr.prev = fr.block
		fr.block = fr.block.Succs[0]
		it.enterBlock(fr)
		return stOK
	case *ssa.Return:
		var res Value
		switch len(x.Results) {
		case 0:
		case 1:
			res = it.eval(fr, x.Results[0])
		default:
			tu := make(Tuple, len(x.Results))
			for i, r := range x.Results {
				tu[i] = it.eval(fr, r)
			}
			res = tu
		}
		return it.doReturn(g, fr, res)
	case *ssa.RunDefers:
		if len(fr.defers) > 0 {
			d := fr.defers[len(fr.defers)-1]
			fr.defers = fr.defers[:len(fr.defers)-1]
			return it.invokeDeferred(g, fr, d)
		}
	case *ssa.Panic:
		v := it.eval(fr, x.X)
		return it.goPanicVal(g, v.(*Iface), "explicit panic", false)
	default:
		it.unsupported("instruction %T", ins)
	}
	if it.pendingPanic != "" {
		msg := it.pendingPanic
		it.pendingPanic = ""
		return it.goPanic(g, msg)
	}
	fr.pc++
	return stOK
}

func insString(ins ssa.Instruction) string {
	if v, ok := ins.(ssa.Value); ok {
		return v.Name() + " = " + ins.String()
	}
	return ins.String()
}

// enterBlock evaluates phis (in parallel) and positions pc after them.
func (it *Interp) enterBlock(fr *Frame) {
	b := fr.block
	np := 0
	for _, ins := range b.Instrs {
		if _, ok := ins.(*ssa.Phi); ok {
			np++
		} else {
			break
		}
	}
	if np > 0 {
		pi := -1
		for i, p := range b.Preds {
			if p == fr.prev {
				pi = i
				break
			}
		}
		if pi < 0 {
			panic("engine: phi predecessor not found")
		}
		vals := make([]Value, np)
		for i := 0; i < np; i++ {
			vals[i] = it.eval(fr, b.Instrs[i].(*ssa.Phi).Edges[pi])
		}
		for i := 0; i < np; i++ {
			it.setReg(fr, b.Instrs[i].(*ssa.Phi), vals[i])
		}
	}
	fr.pc = np
}

func (it *Interp) doReturn(g *G, fr *Frame, res Value) stepResult {
	g.frames = g.frames[:len(g.frames)-1]
	if len(g.frames) == 0 {
		g.status = gDone
		it.lastResult = res
		return stYield
	}
	caller := it.top(g)
	if fr.syncRet {
		it.lastResult = res
		return stYield
	}
	if fr.isDefer {
		// return into a frame that is running defers (normal RunDefers or unwinding): do not advance pc
		return stOK
	}
	if fr.callSite != nil {
		it.setReg(caller, fr.callSite, res)
	}
	caller.pc++
	return stOK
}

// ---- panics ----

func (it *Interp) runtimeErrorValue(msg string) *Iface {
	// a value of dynamic type *errors.errorString
	o := it.newObj(1, "runtime error")
	o.cells[0] = concStr("runtime error: " + msg)
	return &Iface{typ: it.errStringT, val: &Ptr{obj: o}}
}

func (it *Interp) goPanic(g *G, msg string) stepResult {
	return it.goPanicVal(g, it.runtimeErrorValue(msg), msg, true)
}

func (it *Interp) goPanicVal(g *G, v *Iface, desc string, implicit bool) stepResult {
	fr := it.top(g)
	pos := ""
	if fr.block != nil && fr.pc < len(fr.block.Instrs) {
		pos = it.prog.Fset.Position(fr.block.Instrs[fr.pc].Pos()).String()
	}
	where := fr.fn.String()
	if v != nil && v.typ != nil {
		if s, ok := v.val.(*Str); ok && s.IsConc() {
			desc += ": " + s.conc
		}
	}
	g.panic = &panicState{val: v, desc: fmt.Sprintf("%s in %s (%s)", desc, where, pos), implicit: implicit}
	it.panicsSeen++
	fr.unwinding = true
	return stOK
}

// unwind runs deferred calls of the top frame, then pops it.
func (it *Interp) unwind(g *G) stepResult {
	fr := it.top(g)
	if len(fr.defers) > 0 {
		d := fr.defers[len(fr.defers)-1]
		fr.defers = fr.defers[:len(fr.defers)-1]
		return it.invokeDeferred(g, fr, d)
	}
	p := g.panic
	if p != nil && p.recovered && p.recoveredBy == fr {
		g.panic = nil
		fr.unwinding = false
		if fr.fn.Recover != nil {
			fr.prev = fr.block
			fr.block = fr.fn.Recover
			fr.pc = 0
			return stOK
		}
		// return zero results
		var res Value
		rs := fr.fn.Signature.Results()
		switch rs.Len() {
		case 0:
		case 1:
			res = it.zero(rs.At(0).Type())
		default:
			res = it.zero(rs)
		}
		return it.doReturn(g, fr, res)
	}
	if p == nil {
		panic("engine: unwinding without panic")
	}
	// pop this frame and continue unwinding in the caller
	g.frames = g.frames[:len(g.frames)-1]
	if fr.syncRet {
		// propagate through the nested synchronous call
		it.syncPanic = true
		if len(g.frames) > 0 {
			it.top(g).unwinding = true
		}
		return stYield
	}
	if len(g.frames) == 0 {
		g.status = gDone
		it.uncaughtPanic(g, p)
		return stYield
	}
	it.top(g).unwinding = true
	return stOK
}

func (it *Interp) invokeDeferred(g *G, fr *Frame, d *deferRec) stepResult {
	if d.intr != "" || (d.fn != nil && d.fn.fn != nil && it.intrinsicFor(d.fn.fn) != nil) || (d.fn != nil && d.fn.intr != "") {
		// intrinsic deferred call (e.g. mu.Unlock): executes atomically
		name := d.intr
		var f Intrinsic
		if name == "" && d.fn.intr != "" {
			name = d.fn.intr
		}
		if name != "" {
			f = intrinsics[name]
			if f == nil && strings.HasPrefix(name, "builtin:") {
				_, pmsg, pval := it.builtinOp(g, fr, strings.TrimPrefix(name, "builtin:"), d.args, nil)
				if pval != nil {
					return it.goPanicVal(g, pval, "explicit panic", false)
				}
				if pmsg != "" {
					return it.goPanic(g, pmsg)
				}
				return stOK
			}
		} else {
			f = it.intrinsicFor(d.fn.fn)
			name = d.fn.fn.String()
		}
		if f == nil {
			it.unsupported("deferred intrinsic %s", name)
		}
		it.intrHit[name]++
		_, st := f(it, g, fr, d.args, d.site)
		if st == stBlocked {
			it.unsupported("deferred intrinsic %s blocks", name)
		}
		return stOK
	}
	nf := it.pushFrame(g, d.fn.fn, d.args, d.fn.free, nil)
	nf.isDefer = true
	nf.deferBy = fr
	return stOK
}

// ---- path-level exits ----

func (it *Interp) uncaughtPanic(g *G, p *panicState) {
	it.crash = p
	it.crashG = g
}
