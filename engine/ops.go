package main

import (
	"fmt"
	"go/token"
	"go/types"
	"math"
	"strconv"
	"strings"
	"unicode/utf8"

	"golang.org/x/tools/go/ssa"
)

// ---- strings ----

func (it *Interp) strCells(s *Str) []*Term {
	if s.cells != nil {
		return s.cells
	}
	out := make([]*Term, len(s.conc))
	for i := 0; i < len(s.conc); i++ {
		out[i] = it.ts.Const(8, uint64(s.conc[i]))
	}
	return out
}

func (it *Interp) mkStr(cells []*Term) *Str {
	allc := true
	for _, c := range cells {
		if !c.IsConst() {
			allc = false
			break
		}
	}
	if allc {
		b := make([]byte, len(cells))
		for i, c := range cells {
			b[i] = byte(c.Val)
		}
		return concStr(string(b))
	}
	return &Str{cells: append([]*Term{}, cells...)}
}

func (it *Interp) strEq(a, b *Str) *Term {
	if a.Len() != b.Len() {
		return it.ts.ff
	}
	if a.IsConc() && b.IsConc() {
		return it.ts.Bool(a.conc == b.conc)
	}
	ac, bc := it.strCells(a), it.strCells(b)
	r := it.ts.tt
	for i := range ac {
		r = it.ts.And(r, it.ts.Eq(ac[i], bc[i]))
		if r.IsFalse() {
			return r
		}
	}
	return r
}

// strLess builds a < b lexicographically.
func (it *Interp) strLess(a, b *Str) *Term {
	if a.IsConc() && b.IsConc() {
		return it.ts.Bool(a.conc < b.conc)
	}
	ac, bc := it.strCells(a), it.strCells(b)
	n := len(ac)
	if len(bc) < n {
		n = len(bc)
	}
	// from the end: less_i = a[i]<b[i] or (a[i]==b[i] and less_{i+1})
	res := it.ts.Bool(len(ac) < len(bc))
	for i := n - 1; i >= 0; i-- {
		res = it.ts.Or(it.ts.Ult(ac[i], bc[i]), it.ts.And(it.ts.Eq(ac[i], bc[i]), res))
	}
	return res
}

// ---- binary operations ----

func (it *Interp) binop(op token.Token, x, y Value, xt, yt types.Type) Value {
	ts := it.ts
	switch a := x.(type) {
	case *Term:
		b, ok := y.(*Term)
		if !ok {
			it.unsupported("binop %s on term and %T", op, y)
		}
		if isFloat(xt) {
			return it.floatBinop(op, a, b, xt)
		}
		if a.W == 0 { // bool
			switch op {
			case token.EQL:
				return ts.Eq(a, b)
			case token.NEQ:
				return ts.Not(ts.Eq(a, b))
			case token.AND, token.LAND:
				return ts.And(a, b)
			case token.OR, token.LOR:
				return ts.Or(a, b)
			}
			it.unsupported("bool binop %s", op)
		}
		_, signed, _ := intWidth(xt)
		switch op {
		case token.ADD:
			return ts.Bin(OpBvAdd, a, b)
		case token.SUB:
			return ts.Bin(OpBvSub, a, b)
		case token.MUL:
			if !a.IsConst() && !b.IsConst() {
				it.symMul++
			}
			return ts.Bin(OpBvMul, a, b)
		case token.QUO, token.REM:
			if it.decide(ts.Eq(b, ts.Const(b.W, 0)), "div by zero") {
				it.pendingPanic = "integer divide by zero"
				return ts.Const(a.W, 0)
			}
			var o Op
			switch {
			case op == token.QUO && signed:
				o = OpBvSDiv
			case op == token.QUO:
				o = OpBvUDiv
			case signed:
				o = OpBvSRem
			default:
				o = OpBvURem
			}
			return ts.Bin(o, a, b)
		case token.AND:
			return ts.Bin(OpBvAnd, a, b)
		case token.OR:
			return ts.Bin(OpBvOr, a, b)
		case token.XOR:
			return ts.Bin(OpBvXor, a, b)
		case token.AND_NOT:
			return ts.Bin(OpBvAnd, a, ts.BvNot(b))
		case token.SHL, token.SHR:
			return it.shift(op, a, b, signed, yt)
		case token.EQL:
			return ts.Eq(a, b)
		case token.NEQ:
			return ts.Not(ts.Eq(a, b))
		case token.LSS:
			if signed {
				return ts.Slt(a, b)
			}
			return ts.Ult(a, b)
		case token.LEQ:
			if signed {
				return ts.Sle(a, b)
			}
			return ts.Ule(a, b)
		case token.GTR:
			if signed {
				return ts.Slt(b, a)
			}
			return ts.Ult(b, a)
		case token.GEQ:
			if signed {
				return ts.Sle(b, a)
			}
			return ts.Ule(b, a)
		}
		it.unsupported("int binop %s", op)
	case *Str:
		b := y.(*Str)
		switch op {
		case token.ADD:
			if a.IsConc() && b.IsConc() {
				return concStr(a.conc + b.conc)
			}
			return it.mkStr(append(append([]*Term{}, it.strCells(a)...), it.strCells(b)...))
		case token.EQL:
			return it.strEq(a, b)
		case token.NEQ:
			return ts.Not(it.strEq(a, b))
		case token.LSS:
			return it.strLess(a, b)
		case token.GTR:
			return it.strLess(b, a)
		case token.LEQ:
			return ts.Not(it.strLess(b, a))
		case token.GEQ:
			return ts.Not(it.strLess(a, b))
		}
		it.unsupported("string binop %s", op)
	}
	// equality on everything else
	switch op {
	case token.EQL:
		return it.equalTerm(x, y, xt, yt)
	case token.NEQ:
		return ts.Not(it.equalTerm(x, y, xt, yt))
	}
	it.unsupported("binop %s on %T", op, x)
	return nil
}

func (it *Interp) shift(op token.Token, a, b *Term, signed bool, yt types.Type) Value {
	ts := it.ts
	_, ysigned, _ := intWidth(yt)
	if ysigned {
		if it.decide(ts.Slt(b, ts.Const(b.W, 0)), "negative shift") {
			it.pendingPanic = "negative shift amount"
			return ts.Const(a.W, 0)
		}
	}
	w := a.W
	var big *Term // count >= width
	var cnt *Term
	if b.W > w {
		big = ts.Ule(ts.Const(b.W, uint64(w)), b)
		cnt = ts.Extract(b, w-1, 0)
	} else {
		cnt = ts.Zext(b, w)
		big = ts.Ule(ts.Const(w, uint64(w)), cnt)
	}
	var o Op
	var over *Term
	switch {
	case op == token.SHL:
		o, over = OpBvShl, ts.Const(w, 0)
	case signed:
		o = OpBvAshr
		over = ts.Bin(OpBvAshr, a, ts.Const(w, uint64(w-1)))
	default:
		o, over = OpBvLshr, ts.Const(w, 0)
	}
	return ts.Ite(big, over, ts.Bin(o, a, cnt))
}

func (it *Interp) floatBinop(op token.Token, a, b *Term, t types.Type) Value {
	if a.IsConst() && b.IsConst() {
		var x, y float64
		if a.W == 32 {
			x, y = float64(math.Float32frombits(uint32(a.Val))), float64(math.Float32frombits(uint32(b.Val)))
		} else {
			x, y = math.Float64frombits(a.Val), math.Float64frombits(b.Val)
		}
		mk := func(f float64) Value {
			if a.W == 32 {
				return it.ts.Const(32, uint64(math.Float32bits(float32(f))))
			}
			return it.ts.Const(64, math.Float64bits(f))
		}
		switch op {
		case token.ADD:
			return mk(x + y)
		case token.SUB:
			return mk(x - y)
		case token.MUL:
			return mk(x * y)
		case token.QUO:
			return mk(x / y)
		case token.EQL:
			return it.ts.Bool(x == y)
		case token.NEQ:
			return it.ts.Bool(x != y)
		case token.LSS:
			return it.ts.Bool(x < y)
		case token.LEQ:
			return it.ts.Bool(x <= y)
		case token.GTR:
			return it.ts.Bool(x > y)
		case token.GEQ:
			return it.ts.Bool(x >= y)
		}
	}
	// comparison of a symbolic float with +0: x == 0  <=>  bits with sign cleared are 0
	if (op == token.EQL || op == token.NEQ) && ((b.IsConst() && b.Val<<1 == 0) || (a.IsConst() && a.Val<<1 == 0)) {
		x := a
		if a.IsConst() {
			x = b
		}
		z := it.ts.Eq(it.ts.Extract(x, x.W-2, 0), it.ts.Const(x.W-1, 0))
		if op == token.NEQ {
			return it.ts.Not(z)
		}
		return z
	}
	it.unsupported("symbolic float arithmetic %s", op)
	return nil
}

func (it *Interp) unop(x *ssa.UnOp, v Value) Value {
	ts := it.ts
	switch x.Op {
	case token.MUL: // load
		p := v.(*Ptr)
		if isNilValue(p) {
			it.pendingPanic = "nil pointer dereference (load)"
			return it.zero(x.Type())
		}
		lv := it.load(p.obj, p.off, x.Type())
		if up, ok := lv.(*UnsafePtr); ok {
			if b, isB := x.Type().Underlying().(*types.Basic); !(isB && b.Kind() == types.UnsafePointer) {
				if up == nil {
					return it.zero(x.Type())
				}
				return up.v
			}
		}
		return lv
	case token.NOT:
		return ts.Not(v.(*Term))
	case token.SUB:
		if isFloat(x.Type()) {
			t := v.(*Term)
			return ts.Bin(OpBvXor, t, ts.Const(t.W, uint64(1)<<(t.W-1)))
		}
		return ts.BvNeg(v.(*Term))
	case token.XOR:
		return ts.BvNot(v.(*Term))
	}
	it.unsupported("unop %s", x.Op)
	return nil
}

// ---- equality of arbitrary values ----

func (it *Interp) equalTerm(x, y Value, xt, yt types.Type) *Term {
	ts := it.ts
	switch a := x.(type) {
	case *Term:
		b, ok := y.(*Term)
		if !ok {
			return ts.ff
		}
		return ts.Eq(a, b)
	case *Str:
		b, ok := y.(*Str)
		if !ok {
			return ts.ff
		}
		return it.strEq(a, b)
	case *Ptr:
		b, _ := y.(*Ptr)
		if isNilValue(a) || isNilValue(b) {
			return ts.Bool(isNilValue(a) && isNilValue(b))
		}
		return ts.Bool(a.obj == b.obj && a.off == b.off)
	case *Iface:
		b, _ := y.(*Iface)
		if isNilValue(a) || isNilValue(b) {
			// comparing interface with nil constant (possibly typed differently)
			if b == nil && y != nil {
				// y is a non-interface nil constant: only equal if a is nil
			}
			return ts.Bool(isNilValue(a) && isNilValue(b))
		}
		if !types.Identical(a.typ, b.typ) {
			return ts.ff
		}
		if !types.Comparable(a.typ) {
			it.pendingPanic = "comparing uncomparable type " + a.typ.String()
			return ts.ff
		}
		return it.equalTerm(a.val, b.val, a.typ, b.typ)
	case *ChanV:
		b, _ := y.(*ChanV)
		if isNilValue(a) || isNilValue(b) {
			return ts.Bool(isNilValue(a) && isNilValue(b))
		}
		return ts.Bool(a.c == b.c)
	case *MapV:
		b, _ := y.(*MapV)
		return ts.Bool(isNilValue(a) && isNilValue(b))
	case *Slice:
		b, _ := y.(*Slice)
		return ts.Bool(isNilValue(a) && isNilValue(b))
	case *FuncV:
		b, _ := y.(*FuncV)
		return ts.Bool(isNilValue(a) && isNilValue(b))
	case *UnsafePtr:
		b, _ := y.(*UnsafePtr)
		if isNilValue(a) || isNilValue(b) {
			return ts.Bool(isNilValue(a) && isNilValue(b))
		}
		return it.equalTerm(a.v, b.v, nil, nil)
	case Agg:
		b := y.(Agg)
		r := ts.tt
		it.aggEq(a, b, xt, &r)
		return r
	case nil:
		return ts.Bool(isNilValue(y))
	case *RType:
		b, ok := y.(*RType)
		return ts.Bool(ok && types.Identical(a.t, b.t))
	}
	it.unsupported("equality on %T", x)
	return nil
}

func (it *Interp) aggEq(a, b Agg, t types.Type, acc **Term) {
	switch u := t.Underlying().(type) {
	case *types.Struct:
		off := 0
		for i := 0; i < u.NumFields(); i++ {
			ft := u.Field(i).Type()
			n := it.slots(ft)
			if isAggType(ft) {
				it.aggEq(a[off:off+n], b[off:off+n], ft, acc)
			} else {
				*acc = it.ts.And(*acc, it.equalTerm(a[off], b[off], ft, ft))
			}
			off += n
		}
	case *types.Array:
		es := it.slots(u.Elem())
		for i := 0; i < int(u.Len()); i++ {
			if isAggType(u.Elem()) {
				it.aggEq(a[i*es:(i+1)*es], b[i*es:(i+1)*es], u.Elem(), acc)
			} else {
				*acc = it.ts.And(*acc, it.equalTerm(a[i], b[i], u.Elem(), u.Elem()))
			}
		}
	}
}

// ---- conversions ----

func (it *Interp) convert(v Value, from, to types.Type) Value {
	ts := it.ts
	fu, tu := from.Underlying(), to.Underlying()
	// unsafe.Pointer conversions
	if tb, ok := tu.(*types.Basic); ok && tb.Kind() == types.UnsafePointer {
		return &UnsafePtr{v: v}
	}
	if fb, ok := fu.(*types.Basic); ok && fb.Kind() == types.UnsafePointer {
		up, _ := v.(*UnsafePtr)
		if up == nil {
			return it.zero(to)
		}
		return up.v
	}
	switch x := v.(type) {
	case *Term:
		if isString(to) {
			// integer -> string (rune)
			if x.IsConst() {
				return concStr(string(rune(sext64(x.Val, x.W))))
			}
			return it.runeToString(x, from)
		}
		tw, _, ok := intWidth(to)
		if !ok {
			it.unsupported("convert term to %s", to)
		}
		_, fsigned, _ := intWidth(from)
		ff, tf := isFloat(from), isFloat(to)
		switch {
		case ff && tf:
			if x.W == tw {
				return x
			}
			if x.IsConst() {
				if x.W == 32 {
					return ts.Const(64, math.Float64bits(float64(math.Float32frombits(uint32(x.Val)))))
				}
				return ts.Const(32, uint64(math.Float32bits(float32(math.Float64frombits(x.Val)))))
			}
			it.unsupported("symbolic float width conversion")
		case ff && !tf:
			if x.IsConst() {
				var f float64
				if x.W == 32 {
					f = float64(math.Float32frombits(uint32(x.Val)))
				} else {
					f = math.Float64frombits(x.Val)
				}
				_, tsigned, _ := intWidth(to)
				if tsigned {
					return ts.Const(tw, uint64(int64(f)))
				}
				return ts.Const(tw, uint64(f))
			}
			it.unsupported("symbolic float to int")
		case !ff && tf:
			if x.IsConst() {
				var f float64
				if fsigned {
					f = float64(sext64(x.Val, x.W))
				} else {
					f = float64(x.Val)
				}
				if tw == 32 {
					return ts.Const(32, uint64(math.Float32bits(float32(f))))
				}
				return ts.Const(64, math.Float64bits(f))
			}
			it.unsupported("symbolic int to float")
		}
		return ts.Resize(x, tw, fsigned)
	case *Str:
		if sl, ok := tu.(*types.Slice); ok {
			eb, _ := sl.Elem().Underlying().(*types.Basic)
			if eb != nil && eb.Kind() == types.Uint8 {
				cells := it.strCells(x)
				o := it.newObj(len(cells), "[]byte(string)")
				for i, c := range cells {
					o.cells[i] = c
				}
				it.ghostAlloc(int64(len(cells)))
				return &Slice{obj: o, len: len(cells), cap: len(cells), esz: 1}
			}
			if eb != nil && eb.Kind() == types.Int32 && x.IsConc() {
				rs := []rune(x.conc)
				o := it.newObj(len(rs), "[]rune(string)")
				for i, r := range rs {
					o.cells[i] = ts.Const(32, uint64(r))
				}
				return &Slice{obj: o, len: len(rs), cap: len(rs), esz: 1}
			}
			it.unsupported("string to %s", to)
		}
		return x
	case *Slice:
		if isString(to) {
			if isNilValue(x) {
				return emptyStr
			}
			eb, _ := fu.(*types.Slice).Elem().Underlying().(*types.Basic)
			if eb != nil && eb.Kind() == types.Uint8 {
				cells := make([]*Term, x.len)
				for i := 0; i < x.len; i++ {
					cells[i] = x.obj.get(x.off + i).(*Term)
				}
				it.ghostAlloc(int64(x.len))
				return it.mkStr(cells)
			}
			if eb != nil && eb.Kind() == types.Int32 {
				var sb strings.Builder
				for i := 0; i < x.len; i++ {
					c := x.obj.get(x.off + i).(*Term)
					if !c.IsConst() {
						it.unsupported("symbolic []rune to string")
					}
					sb.WriteRune(rune(c.Val))
				}
				return concStr(sb.String())
			}
		}
		return x
	}
	return v
}

// ---- type assertion ----

func (it *Interp) implements(dyn types.Type, iface *types.Interface) bool {
	if iface.NumMethods() == 0 {
		return true
	}
	return types.Implements(dyn, iface)
}

func (it *Interp) typeAssert(x *ssa.TypeAssert, v Value) Value {
	iv, _ := v.(*Iface)
	ok := false
	var res Value
	if !isNilValue(iv) {
		if ai, isI := x.AssertedType.Underlying().(*types.Interface); isI {
			if it.implements(iv.typ, ai) {
				ok = true
				res = iv
			}
		} else if types.Identical(iv.typ, x.AssertedType) {
			ok = true
			res = iv.val
		}
	}
	if x.CommaOk {
		if !ok {
			res = it.zero(x.AssertedType)
		}
		return Tuple{res, it.ts.Bool(ok)}
	}
	if !ok {
		dyn := "nil"
		if !isNilValue(iv) {
			dyn = iv.typ.String()
		}
		it.pendingPanic = fmt.Sprintf("interface conversion: interface is %s, not %s", dyn, x.AssertedType)
		return it.zero(x.AssertedType)
	}
	return res
}

// ---- indexing, slicing ----

// boundsCheck forks on idx in [0,limit) ; returns false if the panic side was taken.
func (it *Interp) inBounds(idx *Term, signed bool, limit int, what string) bool {
	ts := it.ts
	var ok *Term
	if idx.W < 64 {
		idx = ts.Resize(idx, 64, signed)
	}
	ok = ts.Ult(idx, ts.Const(64, uint64(limit)))
	return it.decide(ok, what)
}

func (it *Interp) doIndex(g *G, fr *Frame, x *ssa.Index) stepResult {
	xv := it.eval(fr, x.X)
	idx := it.eval(fr, x.Index).(*Term)
	_, signed, _ := intWidth(x.Index.Type())
	switch a := xv.(type) {
	case *Str:
		if !it.inBounds(idx, signed, a.Len(), "string index") {
			return it.goPanic(g, fmt.Sprintf("index out of range [%s] with length %d", idx, a.Len()))
		}
		if idx.IsConst() && a.IsConc() {
			it.setReg(fr, x, it.ts.Const(8, uint64(a.conc[idx.Val])))
		} else {
			i := int(it.concretize(idx, "string index"))
			it.setReg(fr, x, it.strCells(a)[i])
		}
	case Agg:
		at := x.X.Type().Underlying().(*types.Array)
		if !it.inBounds(idx, signed, int(at.Len()), "array index") {
			return it.goPanic(g, "array index out of range")
		}
		i := int(it.concretize(idx, "array index"))
		es := it.slots(at.Elem())
		if isAggType(at.Elem()) {
			it.setReg(fr, x, Agg(append([]Value(nil), a[i*es:(i+1)*es]...)))
		} else {
			it.setReg(fr, x, a[i])
		}
	default:
		it.unsupported("Index on %T", xv)
	}
	fr.pc++
	return stOK
}

func (it *Interp) doIndexAddr(g *G, fr *Frame, x *ssa.IndexAddr) stepResult {
	xv := it.eval(fr, x.X)
	idx := it.eval(fr, x.Index).(*Term)
	_, signed, _ := intWidth(x.Index.Type())
	switch a := xv.(type) {
	case *Slice:
		n := 0
		if !isNilValue(a) {
			n = a.len
		}
		if !it.inBounds(idx, signed, n, "slice index") {
			return it.goPanic(g, fmt.Sprintf("index out of range [%s] with length %d", idx, n))
		}
		i := int(it.concretize(idx, "slice index"))
		it.setReg(fr, x, &Ptr{obj: a.obj, off: a.off + i*a.esz})
	case *Ptr:
		if isNilValue(a) {
			return it.goPanic(g, "nil pointer dereference (index)")
		}
		at := x.X.Type().Underlying().(*types.Pointer).Elem().Underlying().(*types.Array)
		if !it.inBounds(idx, signed, int(at.Len()), "array index") {
			return it.goPanic(g, "array index out of range")
		}
		i := int(it.concretize(idx, "array index"))
		it.setReg(fr, x, &Ptr{obj: a.obj, off: a.off + i*it.slots(at.Elem())})
	default:
		it.unsupported("IndexAddr on %T", xv)
	}
	fr.pc++
	return stOK
}

// sliceBound evaluates an optional bound operand to a concrete int (after bounds forks).
func (it *Interp) doSlice(g *G, fr *Frame, x *ssa.Slice) stepResult {
	xv := it.eval(fr, x.X)
	var length, capacity int
	var isStr bool
	var base *Slice
	var esz int
	switch a := xv.(type) {
	case *Str:
		isStr = true
		length, capacity = a.Len(), a.Len()
	case *Slice:
		if !isNilValue(a) {
			length, capacity = a.len, a.cap
			base = a
			esz = a.esz
		} else {
			esz = it.slots(x.X.Type().Underlying().(*types.Slice).Elem())
		}
	case *Ptr:
		if isNilValue(a) {
			return it.goPanic(g, "nil pointer dereference (slice of *array)")
		}
		at := x.X.Type().Underlying().(*types.Pointer).Elem().Underlying().(*types.Array)
		length, capacity = int(at.Len()), int(at.Len())
		esz = it.slots(at.Elem())
		base = &Slice{obj: a.obj, off: a.off, len: length, cap: capacity, esz: esz}
	default:
		it.unsupported("Slice on %T", xv)
	}
	ts := it.ts
	getBound := func(v ssa.Value, def int) *Term {
		if v == nil {
			return ts.Const(64, uint64(def))
		}
		t := it.eval(fr, v).(*Term)
		_, signed, _ := intWidth(v.Type())
		return ts.Resize(t, 64, signed)
	}
	lo := getBound(x.Low, 0)
	hi := getBound(x.High, length)
	mx := getBound(x.Max, capacity)
	// Go: 0 <= lo <= hi <= max <= cap (strings: hi <= len)
	limit := capacity
	if isStr {
		limit = length
	}
	if x.Max != nil {
		if !it.decide(ts.Ule(mx, ts.Const(64, uint64(limit))), "slice max bound") {
			return it.goPanic(g, fmt.Sprintf("slice bounds out of range [::%s] with capacity %d", mx, limit))
		}
		if !it.decide(ts.Ule(hi, mx), "slice high<=max") {
			return it.goPanic(g, fmt.Sprintf("slice bounds out of range [:%s:%s]", hi, mx))
		}
	} else {
		if !it.decide(ts.Ule(hi, ts.Const(64, uint64(limit))), "slice high bound") {
			return it.goPanic(g, fmt.Sprintf("slice bounds out of range [:%s] with capacity %d", hi, limit))
		}
	}
	if !it.decide(ts.Ule(lo, hi), "slice low<=high") {
		return it.goPanic(g, fmt.Sprintf("slice bounds out of range [%s:%s]", lo, hi))
	}
	l := int(it.concretize(lo, "slice low"))
	h := int(it.concretize(hi, "slice high"))
	m := capacity
	if x.Max != nil {
		m = int(it.concretize(mx, "slice max"))
	}
	if isStr {
		a := xv.(*Str)
		if a.IsConc() {
			it.setReg(fr, x, concStr(a.conc[l:h]))
		} else {
			it.setReg(fr, x, it.mkStr(a.cells[l:h]))
		}
	} else if base == nil {
		// slicing a nil slice with 0:0
		it.setReg(fr, x, (*Slice)(nil))
	} else {
		it.setReg(fr, x, &Slice{obj: base.obj, off: base.off + l*esz, len: h - l, cap: m - l, esz: esz})
	}
	fr.pc++
	return stOK
}

func (it *Interp) doMakeSlice(g *G, fr *Frame, x *ssa.MakeSlice) stepResult {
	ts := it.ts
	lt := it.eval(fr, x.Len).(*Term)
	ct := it.eval(fr, x.Cap).(*Term)
	_, ls, _ := intWidth(x.Len.Type())
	_, cs, _ := intWidth(x.Cap.Type())
	lt = ts.Resize(lt, 64, ls)
	ct = ts.Resize(ct, 64, cs)
	max := uint64(1) << 47
	if !it.decide(ts.Ule(lt, ts.Const(64, max)), "makeslice len") {
		return it.goPanic(g, "makeslice: len out of range")
	}
	if !it.decide(ts.And(ts.Ule(lt, ct), ts.Ule(ct, ts.Const(64, max))), "makeslice cap") {
		return it.goPanic(g, "makeslice: cap out of range")
	}
	et := x.Type().Underlying().(*types.Slice).Elem()
	// ghost allocation accounting happens before concretisation so that a huge
	// symbolic size is visible as such
	it.ghostAllocTerm(ct, int64(it.sizeofBytes(et)))
	n := int(it.concretizeLimited(lt, "make len", it.cfg.MaxAlloc))
	c := int(it.concretizeLimited(ct, "make cap", it.cfg.MaxAlloc))
	o := it.newArrayObj(et, c, "make "+x.Type().String())
	it.setReg(fr, x, &Slice{obj: o, len: n, cap: c, esz: it.slots(et)})
	fr.pc++
	return stOK
}

func (it *Interp) sizeofBytes(t types.Type) int {
	switch u := t.Underlying().(type) {
	case *types.Basic:
		w, _, ok := intWidth(t)
		if ok {
			if w == 0 {
				return 1
			}
			return int(w / 8)
		}
		if u.Info()&types.IsString != 0 {
			return 16
		}
		return 8
	case *types.Struct:
		n := 0
		for i := 0; i < u.NumFields(); i++ {
			n += it.sizeofBytes(u.Field(i).Type())
		}
		return n
	case *types.Array:
		return int(u.Len()) * it.sizeofBytes(u.Elem())
	case *types.Slice:
		return 24
	case *types.Interface:
		return 16
	}
	return 8
}

// ---- maps ----

func (it *Interp) canonKey(v Value, sb *strings.Builder) bool {
	switch x := v.(type) {
	case *Term:
		if !x.IsConst() {
			return false
		}
		sb.WriteString(strconv.FormatUint(x.Val, 10))
		sb.WriteByte(';')
	case *Str:
		if !x.IsConc() {
			return false
		}
		sb.WriteString(strconv.Quote(x.conc))
		sb.WriteByte(';')
	case Agg:
		sb.WriteByte('{')
		for _, e := range x {
			if !it.canonKey(e, sb) {
				return false
			}
		}
		sb.WriteByte('}')
	case *Ptr:
		if isNilValue(x) {
			sb.WriteString("nilp;")
		} else {
			fmt.Fprintf(sb, "p%d+%d;", x.obj.id, x.off)
		}
	case *Iface:
		if isNilValue(x) {
			sb.WriteString("nili;")
		} else {
			sb.WriteString(x.typ.String())
			sb.WriteByte(':')
			return it.canonKey(x.val, sb)
		}
	case *ChanV:
		if isNilValue(x) {
			sb.WriteString("nilc;")
		} else {
			fmt.Fprintf(sb, "c%d;", x.c.id)
		}
	case *RType:
		sb.WriteString("rt:" + x.t.String() + ";")
	default:
		it.unsupported("map key of kind %T", v)
	}
	return true
}

// mapFind returns the index of the entry equal to key, or -1.  May fork.
func (it *Interp) mapFind(m *MapObj, key Value) int {
	var sb strings.Builder
	conc := it.canonKey(key, &sb)
	if conc {
		if i, ok := m.index[sb.String()]; ok {
			return i
		}
		if !m.hasSym {
			return -1
		}
	}
	for i := range m.entries {
		e := &m.entries[i]
		if e.deleted || (conc && e.conc) {
			continue
		}
		eq := it.equalTerm(key, e.k, m.keyT, m.keyT)
		if eq.IsFalse() {
			continue
		}
		if it.decide(eq, "map key match") {
			return i
		}
	}
	return -1
}

func (it *Interp) mapSet(m *MapObj, key, val Value) {
	i := it.mapFind(m, key)
	it.mapLogUndo(m)
	if i >= 0 {
		m.entries[i].v = val
		return
	}
	var sb strings.Builder
	conc := it.canonKey(key, &sb)
	e := mapEntry{k: key, v: val, conc: conc}
	if conc {
		e.ckey = sb.String()
		m.index[e.ckey] = len(m.entries)
	} else {
		m.hasSym = true
	}
	m.entries = append(m.entries, e)
}

func (it *Interp) mapDelete(m *MapObj, key Value) {
	i := it.mapFind(m, key)
	if i < 0 {
		return
	}
	it.mapLogUndo(m)
	if m.entries[i].conc {
		delete(m.index, m.entries[i].ckey)
	}
	m.entries[i].deleted = true
}

func (m *MapObj) liveLen() int {
	n := 0
	for i := range m.entries {
		if !m.entries[i].deleted {
			n++
		}
	}
	return n
}

func (it *Interp) doLookup(g *G, fr *Frame, x *ssa.Lookup) stepResult {
	xv := it.eval(fr, x.X)
	switch a := xv.(type) {
	case *Str:
		idx := it.eval(fr, x.Index).(*Term)
		_, signed, _ := intWidth(x.Index.Type())
		if !it.inBounds(idx, signed, a.Len(), "string index") {
			return it.goPanic(g, "string index out of range")
		}
		i := int(it.concretize(idx, "string index"))
		it.setReg(fr, x, it.strCells(a)[i])
	case *MapV:
		vt := x.X.Type().Underlying().(*types.Map).Elem()
		var res Value
		found := false
		if !isNilValue(a) {
			if i := it.mapFind(a.m, it.eval(fr, x.Index)); i >= 0 {
				res = a.m.entries[i].v
				found = true
			}
		}
		if !found {
			res = it.zero(vt)
		}
		if ag, ok := res.(Agg); ok {
			res = Agg(append([]Value(nil), ag...))
		}
		if x.CommaOk {
			it.setReg(fr, x, Tuple{res, it.ts.Bool(found)})
		} else {
			it.setReg(fr, x, res)
		}
	default:
		it.unsupported("Lookup on %T", xv)
	}
	fr.pc++
	return stOK
}

// ---- range ----

func (it *Interp) makeRange(v Value, t types.Type) *RangeIter {
	switch x := v.(type) {
	case *MapV:
		ri := &RangeIter{isMap: true}
		if !isNilValue(x) {
			for _, e := range x.m.entries {
				if !e.deleted {
					ri.keys = append(ri.keys, e.k)
					ri.vals = append(ri.vals, e.v)
				}
			}
		}
		return ri
	case *Str:
		if !x.IsConc() {
			// only ASCII-agnostic byte iteration is impossible symbolically
			it.unsupported("range over symbolic string")
		}
		return &RangeIter{str: x}
	}
	it.unsupported("range over %T", v)
	return nil
}

func (it *Interp) rangeNext(x *ssa.Next, ri *RangeIter) Value {
	ts := it.ts
	if x.IsString {
		s := ri.str.conc
		if ri.pos >= len(s) {
			return Tuple{ts.ff, ts.Const(64, 0), ts.Const(32, 0)}
		}
		r, sz := utf8.DecodeRuneInString(s[ri.pos:])
		p := ri.pos
		ri.pos += sz
		return Tuple{ts.tt, ts.Const(64, uint64(p)), ts.Const(32, uint64(r))}
	}
	tt := x.Type().(*types.Tuple)
	if ri.pos >= len(ri.keys) {
		return Tuple{ts.ff, it.zeroOrNil(tt.At(1).Type()), it.zeroOrNil(tt.At(2).Type())}
	}
	k, v := ri.keys[ri.pos], ri.vals[ri.pos]
	ri.pos++
	return Tuple{ts.tt, k, v}
}

func (it *Interp) zeroOrNil(t types.Type) Value {
	if b, ok := t.(*types.Basic); ok && b.Kind() == types.Invalid {
		return nil
	}
	return it.zero(t)
}

// runeToString converts a symbolic integer to its UTF-8 string (case split on the encoding length).
func (it *Interp) runeToString(x *Term, from types.Type) Value {
	ts := it.ts
	_, signed, _ := intWidth(from)
	v := ts.Resize(x, 64, signed)
	c := func(n uint64) *Term { return ts.Const(64, n) }
	b8 := func(t *Term) *Term { return ts.Extract(t, 7, 0) }
	or8 := func(hi uint64, t *Term) *Term { return ts.Bin(OpBvOr, ts.Const(8, hi), b8(t)) }
	shr := func(t *Term, k uint64) *Term { return ts.Bin(OpBvLshr, t, c(k)) }
	low6 := func(t *Term) *Term { return ts.Bin(OpBvAnd, t, c(0x3f)) }
	bad := &Str{conc: "\uFFFD"}
	switch {
	case it.decide(ts.Ult(v, c(0x80)), "rune < 0x80"):
		return it.mkStr([]*Term{b8(v)})
	case it.decide(ts.Ult(v, c(0x800)), "rune < 0x800"):
		return it.mkStr([]*Term{or8(0xc0, shr(v, 6)), or8(0x80, low6(v))})
	case it.decide(ts.And(ts.Ule(c(0xd800), v), ts.Ule(v, c(0xdfff))), "surrogate"):
		return bad
	case it.decide(ts.Ult(v, c(0x10000)), "rune < 0x10000"):
		return it.mkStr([]*Term{or8(0xe0, shr(v, 12)), or8(0x80, low6(shr(v, 6))), or8(0x80, low6(v))})
	case it.decide(ts.Ule(v, c(0x10ffff)), "rune <= 0x10ffff"):
		return it.mkStr([]*Term{or8(0xf0, shr(v, 18)), or8(0x80, low6(shr(v, 12))), or8(0x80, low6(shr(v, 6))), or8(0x80, low6(v))})
	}
	return bad
}
