package main

// Materialised dictionaries (DESIGN 2.7 mode 3): encoding/xml.Decode is replaced by a native helper
// built from /repo's *current* dict package; the resulting dict.File is materialised in the engine
// heap and the real Parser.Load indexing code runs on it in the engine.

import (
	"bytes"
	"crypto/sha256"
	"encoding/json"
	"fmt"
	"go/types"
	"os"
	"os/exec"
	"path/filepath"
	"strings"
	"sync"

	"golang.org/x/tools/go/ssa"
)

type dictHelper struct {
	mu    sync.Mutex
	bin   string
	dir   string
	err   error
	cache map[[32]byte]json.RawMessage
	errs  map[[32]byte]string
}

var dictHelp = &dictHelper{cache: map[[32]byte]json.RawMessage{}, errs: map[[32]byte]string{}}

func (h *dictHelper) build(repo, vd string) error {
	if h.bin != "" || h.err != nil {
		return h.err
	}
	dir, err := os.MkdirTemp("", "symgo-dictdump-")
	if err != nil {
		h.err = err
		return err
	}
	h.dir = dir
	src, _ := os.ReadFile(filepath.Join(vd, "tools", "dictdump", "main.go"))
	os.WriteFile(filepath.Join(dir, "main.go"), src, 0o644)
	gomod := fmt.Sprintf("module dictdump\n\ngo 1.20\n\nrequire %s v4.0.0\n\nreplace %s => %s\n", repoModule, repoModule, repo)
	os.WriteFile(filepath.Join(dir, "go.mod"), []byte(gomod), 0o644)
	if sum, err := os.ReadFile(filepath.Join(repo, "go.sum")); err == nil {
		os.WriteFile(filepath.Join(dir, "go.sum"), sum, 0o644)
	}
	cmd := exec.Command("go", "build", "-o", filepath.Join(dir, "dictdump"), ".")
	cmd.Dir = dir
	cmd.Env = append(os.Environ(), "GOFLAGS=-mod=mod", "GOPROXY=off", "GOSUMDB=off", "GOTOOLCHAIN=local")
	if out, err := cmd.CombinedOutput(); err != nil {
		h.err = fmt.Errorf("building dictdump helper: %v\n%s", err, out)
		return h.err
	}
	h.bin = filepath.Join(dir, "dictdump")
	return nil
}

func (h *dictHelper) cleanup() {
	if h.dir != "" {
		os.RemoveAll(h.dir)
	}
}

// decode returns the JSON of the dict.File for an XML text (cached per process).
func (h *dictHelper) decode(repo, vd, xmlText string) (json.RawMessage, string, error) {
	key := sha256.Sum256([]byte(xmlText))
	h.mu.Lock()
	defer h.mu.Unlock()
	if r, ok := h.cache[key]; ok {
		return r, "", nil
	}
	if e, ok := h.errs[key]; ok {
		return nil, e, nil
	}
	if err := h.build(repo, vd); err != nil {
		return nil, "", err
	}
	in, _ := json.Marshal([]string{xmlText})
	cmd := exec.Command(h.bin)
	cmd.Stdin = bytes.NewReader(in)
	out, err := cmd.Output()
	if err != nil {
		return nil, "", fmt.Errorf("dictdump: %v", err)
	}
	var res []struct {
		File json.RawMessage `json:"file"`
		Err  string          `json:"err"`
	}
	if err := json.Unmarshal(out, &res); err != nil || len(res) != 1 {
		return nil, "", fmt.Errorf("dictdump output: %v", err)
	}
	if res[0].Err != "" {
		h.errs[key] = res[0].Err
		return nil, res[0].Err, nil
	}
	h.cache[key] = res[0].File
	return res[0].File, "", nil
}

// fromJSON materialises a JSON value as an engine value of type t.
func (it *Interp) fromJSON(t types.Type, j interface{}) Value {
	ts := it.ts
	switch u := t.Underlying().(type) {
	case *types.Basic:
		switch {
		case u.Info()&types.IsString != 0:
			s, _ := j.(string)
			return concStr(s)
		case u.Info()&types.IsBoolean != 0:
			b, _ := j.(bool)
			return ts.Bool(b)
		case u.Info()&types.IsInteger != 0:
			w, _, _ := intWidth(t)
			switch n := j.(type) {
			case json.Number:
				if i, err := n.Int64(); err == nil {
					return ts.Const(w, uint64(i))
				}
				var uv uint64
				fmt.Sscan(n.String(), &uv)
				return ts.Const(w, uv)
			case float64:
				return ts.Const(w, uint64(int64(n)))
			}
			return ts.Const(w, 0)
		}
	case *types.Pointer:
		if j == nil {
			return (*Ptr)(nil)
		}
		o := it.newTypedObj(u.Elem(), "dict "+u.Elem().String())
		it.fillFromJSON(o, 0, u.Elem(), j)
		return &Ptr{obj: o}
	case *types.Slice:
		arr, _ := j.([]interface{})
		if arr == nil {
			return (*Slice)(nil)
		}
		es := it.slots(u.Elem())
		o := it.newArrayObj(u.Elem(), len(arr), "dict slice")
		for i, e := range arr {
			it.fillFromJSON(o, i*es, u.Elem(), e)
		}
		return &Slice{obj: o, len: len(arr), cap: len(arr), esz: es}
	case *types.Struct:
		n := it.slots(t)
		tmp := it.newObj(n, "tmp")
		it.fillZero(tmp.cells, t)
		it.fillFromJSON(tmp, 0, t, j)
		return Agg(tmp.cells)
	}
	return it.zero(t)
}

func (it *Interp) fillFromJSON(o *Obj, off int, t types.Type, j interface{}) {
	if st, ok := t.Underlying().(*types.Struct); ok {
		m, _ := j.(map[string]interface{})
		for i := 0; i < st.NumFields(); i++ {
			f := st.Field(i)
			if v, ok := m[f.Name()]; ok {
				it.fillFromJSON(o, off+it.fieldOff(st, i), f.Type(), v)
			}
		}
		return
	}
	v := it.fromJSON(t, j)
	if a, ok := v.(Agg); ok {
		for i, x := range a {
			o.cells[off+i] = x
		}
		return
	}
	if o.cells != nil {
		o.cells[off] = v
	} else {
		o.sparse[off] = v
	}
}

// readAll drains an io.Reader value by calling its Read method in the engine.
func (it *Interp) readAll(g *G, r *Iface) []byte {
	// fast path: *bytes.Reader and *strings.Reader hold concrete data
	fn := it.prog.LookupMethod(r.typ, nil, "Read")
	if fn == nil {
		it.unsupported("reader %s has no Read method", r.typ)
	}
	buf := it.newArrayObj(types.Typ[types.Uint8], 4096, "xml read buffer")
	var out []byte
	for iter := 0; iter < 1<<20; iter++ {
		res, ok := it.callSync(g, &FuncV{fn: fn}, []Value{r.val, &Slice{obj: buf, len: 4096, cap: 4096, esz: 1}})
		if !ok {
			it.unsupported("reader panicked")
		}
		tu := res.(Tuple)
		n := tu[0].(*Term)
		if !n.IsConst() {
			it.unsupported("symbolic read size in XML input")
		}
		for i := 0; i < int(n.Val); i++ {
			c := buf.get(i).(*Term)
			if !c.IsConst() {
				it.unsupported("symbolic byte in XML input")
			}
			out = append(out, byte(c.Val))
		}
		if e, _ := tu[1].(*Iface); !isNilValue(e) {
			break
		}
		if n.Val == 0 {
			break
		}
	}
	return out
}

func init() {
	reg("encoding/xml.NewDecoder", func(it *Interp, g *G, fr *Frame, args []Value, site ssa.Instruction) (Value, stepResult) {
		xp := it.P.pkgs["encoding/xml"]
		o := it.newObj(2, "xml.Decoder (model)")
		o.cells[0] = args[0] // the reader
		o.cells[1] = nil
		_ = xp
		return &Ptr{obj: o}, stOK
	})
	reg("(*encoding/xml.Decoder).Decode", func(it *Interp, g *G, fr *Frame, args []Value, site ssa.Instruction) (Value, stepResult) {
		dec := args[0].(*Ptr)
		r, _ := dec.obj.cells[0].(*Iface)
		dst, _ := args[1].(*Iface)
		if isNilValue(r) || isNilValue(dst) {
			it.unsupported("xml.Decode with nil reader or destination")
		}
		dp, ok := dst.val.(*Ptr)
		pt, isPtr := dst.typ.Underlying().(*types.Pointer)
		if !ok || !isPtr {
			it.unsupported("xml.Decode destination %s", dst.typ)
		}
		// symbolic dictionary files (mode 2): the reader wraps a *dict.File built by the harness
		if sp, ok := r.val.(*Ptr); ok && !isNilValue(sp) && sp.obj.label == "vDictFile" {
			src := sp.obj.cells[0].(*Ptr)
			n := it.slots(pt.Elem())
			for i := 0; i < n; i++ {
				it.set(dp.obj, dp.off+i, src.obj.get(src.off+i))
			}
			return (*Iface)(nil), stOK
		}
		text := it.readAll(g, r)
		raw, derr, err := dictHelp.decode(it.P.repoDir, verifDir(), string(text))
		if err != nil {
			it.unsupported("dictionary helper: %v", err)
		}
		if derr != "" {
			return it.newError("xml: " + derr), stOK
		}
		var j interface{}
		d := json.NewDecoder(bytes.NewReader(raw))
		d.UseNumber()
		if err := d.Decode(&j); err != nil {
			it.unsupported("dictionary helper JSON: %v", err)
		}
		it.fillFromJSON(dp.obj, dp.off, pt.Elem(), j)
		it.xmlDecodes++
		return (*Iface)(nil), stOK
	})
	reg("harness.vDictFile", func(it *Interp, g *G, fr *Frame, args []Value, site ssa.Instruction) (Value, stepResult) {
		o := it.newObj(1, "vDictFile")
		o.cells[0] = args[0]
		rt := it.harnessReaderType()
		return &Iface{typ: rt, val: &Ptr{obj: o}}, stOK
	})
}

// harnessReaderType returns *bytes.Reader as the nominal dynamic type of vDictFile readers.
func (it *Interp) harnessReaderType() types.Type {
	bp := it.P.pkgs["bytes"]
	return it.canonT(types.NewPointer(bp.Type("Reader").Type()))
}

var _ = strings.TrimSpace
