package main

// Path exploration: decision vectors, re-execution DFS, parallel workers.

import (
	"fmt"
	"go/types"
	"os"
	"runtime/debug"
	"sort"
	"strings"
	"sync"
	"time"

	"golang.org/x/tools/go/ssa"
)

type Config struct {
	MaxSteps       int64
	MaxCallDepth   int
	MaxAlloc       uint64
	MaxDecisions   int
	SplitLimit     int
	Trace          bool
	QueryTimeoutMs int
	Workers        int
	MaxPaths       int64
	Wall           time.Duration
	Params         map[string]int64
	InitPkgs       []string
	ExploreSched   bool
	Preempt        int
	MaxViolations  int
	Solver         SolverKind
	Verbose        bool
	Summaries      map[string]bool
	SelfTests      int
}

type Decision struct {
	Kind   uint8 // 0 branch, 1 concretize, 2 assume, 3 choice
	Taken  bool
	Forced bool
	Val    uint64
}

type InputVar struct {
	Tag   string
	Kind  string // u8,u16,u32,u64,bool,len,choice,bytes element
	W     uint8
	Term  *Term
	Name  string
	Conc  bool
	Value uint64
}

type Violation struct {
	Harness string
	Label   string
	Kind    string // assert, panic, alloc, deadlock, leak
	Detail  string
	Inputs  []InputVal
	Known   []string
	Dict    []DictEntry
	Path    string
}

type InputVal struct {
	Tag string `json:"tag"`
	W   int    `json:"w"`
	Val uint64 `json:"val"`
}

type DictEntry struct {
	App    uint32 `json:"app"`
	Code   uint32 `json:"code"`
	Vendor uint32 `json:"vendor"`
	Type   int    `json:"type"` // datatype.TypeID or -1 undefined
	Name   string `json:"name,omitempty"`
	Cmd    bool   `json:"cmd,omitempty"`
	NReq   int    `json:"nreq,omitempty"`
	NAns   int    `json:"nans,omitempty"`
}

type Interp struct {
	*World
	ex        *Explorer
	harness   string
	prefix    []Decision
	dpos      int
	decisions []Decision
	pc        []*Term
	pcSet     map[*Term]bool
	inputs    []*InputVar
	nvars     int

	gs    []*G
	cur   *G
	nextG int

	steps             int64
	maxDepth          int
	pendingPanic      string
	pendingPanicVal   *Iface
	lastResult        Value
	syncPanic         bool
	crash             *panicState
	crashG            *G
	panicsSeen        int
	recovered         []string
	known             map[string]bool
	noPanic           bool
	reach             []string
	symMul            int
	ghostConc         int64
	ghostTerms        []*Term
	allocLimit        *Term
	dictLookups       []dictLookup
	cmdLookups        []dictLookup
	clock             int64
	timers            []*timer
	goroutinesSpawned int
	nAsserts          int
	nAssertsSym       int
	nforks            int
	unknownBranches   int
	observations      []string
	preemptions       int
	schedTrace        []int
	newDecisions      int
	quiesceWaiters    int
	events            []string
	lastModel         map[string]uint64
	obs               []obsRec
	goTimers          map[*Obj]*timer
	fmtPanics         int
	fmtPanicDesc      []string
	fmtDepth          int
	poolMayDrop       bool
	poolHits          int
	autoAdvance       bool
	yieldReq          bool
	timerFirings      int
	muOwner           map[string]int
	initMode          bool
	xmlDecodes        int
}

type PathResult struct {
	Status     PathStatus
	Msg        string
	Violation  *Violation
	Steps      int64
	Decisions  int
	Reach      []string
	Asserts    int
	AssertsSym int
	Known      []string
	Sample     []InputVal
	Goroutines int
	SchedLen   int
	SelfTest   *SelfTestCase
}

type Explorer struct {
	P        *Program
	cfg      *Config
	harness  *ssa.Function
	hname    string
	mu       sync.Mutex
	cond     *sync.Cond
	work     [][]Decision
	active   int
	stop     bool
	deadline time.Time

	// aggregated
	paths          int64
	pathsByStatus  map[PathStatus]int64
	violations     []*Violation
	knownHits      map[string]int64
	inconclusive   []string
	reach          map[string]int64
	asserts        int64
	assertsSym     int64
	steps          int64
	maxDecisions   int
	funcsHit       map[string]int64
	intrHit        map[string]int64
	queries        [3]int
	solverTime     time.Duration
	solverErrors   int
	samples        [][]InputVal
	unknownBranch  int64
	symPaths       int64
	maxGoroutines  int
	schedPaths     int64
	wallStart      time.Time
	budgetExceeded string
	knownIDs       map[string]bool
	newViolations  int
	knownViol      int
	knownKept      map[string]int
	selfTests      []*SelfTestCase
	selfPending    int
	selfSeen       int64
}

func NewExplorer(P *Program, cfg *Config, harness *ssa.Function, hname string) *Explorer {
	ex := &Explorer{P: P, cfg: cfg, harness: harness, hname: hname,
		pathsByStatus: map[PathStatus]int64{}, knownHits: map[string]int64{}, reach: map[string]int64{},
		funcsHit: map[string]int64{}, intrHit: map[string]int64{}}
	ex.cond = sync.NewCond(&ex.mu)
	return ex
}

func newWorld(P *Program, cfg *Config) (*World, error) {
	w := &World{P: P, prog: P.prog, ts: NewTermStore(), globals: map[*ssa.Global]*Obj{}, slotCache: map[types.Type]int{},
		finfo: map[*ssa.Function]*FuncInfo{}, initDone: map[string]bool{}, cfg: cfg,
		funcsHit: map[*ssa.Function]int64{}, intrHit: map[string]int64{}}
	kind := cfg.Solver
	if kind == "" {
		kind = Z3
	}
	s, err := NewSolver(kind, cfg.QueryTimeoutMs)
	if err != nil {
		return nil, err
	}
	w.solver = s
	// *errors.errorString for runtime errors
	if ep := P.pkgs["errors"]; ep != nil {
		if tn := ep.Type("errorString"); tn != nil {
			w.errStringT = w.canonT(types.NewPointer(tn.Type()))
		}
	}
	return w, nil
}

// Run explores all paths of the harness.
func (ex *Explorer) Run() error {
	ex.wallStart = time.Now()
	if ex.cfg.Wall > 0 {
		ex.deadline = ex.wallStart.Add(ex.cfg.Wall)
	}
	ex.work = [][]Decision{{}}
	nw := ex.cfg.Workers
	if nw <= 0 {
		nw = 1
	}
	var wg sync.WaitGroup
	errs := make(chan error, nw)
	for i := 0; i < nw; i++ {
		wg.Add(1)
		go func(id int) {
			defer wg.Done()
			if err := ex.worker(id); err != nil {
				errs <- err
				ex.mu.Lock()
				ex.stop = true
				ex.cond.Broadcast()
				ex.mu.Unlock()
			}
		}(i)
	}
	wg.Wait()
	select {
	case err := <-errs:
		return err
	default:
	}
	return nil
}

func (ex *Explorer) worker(id int) (err error) {
	w, e := newWorld(ex.P, ex.cfg)
	if e != nil {
		return e
	}
	defer w.solver.Close()
	defer func() {
		ex.mu.Lock()
		for i := 0; i < 3; i++ {
			ex.queries[i] += w.solver.Queries[i]
		}
		ex.solverTime += w.solver.Time
		ex.solverErrors += w.solver.Errors
		for fn, n := range w.funcsHit {
			ex.funcsHit[fn.String()] += n
		}
		for k, n := range w.intrHit {
			ex.intrHit[k] += n
		}
		ex.mu.Unlock()
	}()
	// package initialisation (once per worker)
	if ierr := w.runInits(ex); ierr != nil {
		return ierr
	}
	for {
		ex.mu.Lock()
		for len(ex.work) == 0 && ex.active > 0 && !ex.stop {
			ex.cond.Wait()
		}
		if ex.stop || (len(ex.work) == 0 && ex.active == 0) {
			ex.cond.Broadcast()
			ex.mu.Unlock()
			return nil
		}
		prefix := ex.work[len(ex.work)-1]
		ex.work = ex.work[:len(ex.work)-1]
		ex.active++
		ex.mu.Unlock()

		res := w.runPath(ex, prefix)

		ex.mu.Lock()
		ex.active--
		ex.record(res)
		if ex.cfg.MaxPaths > 0 && ex.paths >= ex.cfg.MaxPaths && len(ex.work) > 0 {
			ex.budgetExceeded = fmt.Sprintf("path budget %d exhausted with %d prefixes pending", ex.cfg.MaxPaths, len(ex.work))
			ex.stop = true
		}
		if !ex.deadline.IsZero() && time.Now().After(ex.deadline) && (len(ex.work) > 0 || ex.active > 0) {
			ex.budgetExceeded = fmt.Sprintf("wall budget %s exhausted with %d prefixes pending", ex.cfg.Wall, len(ex.work))
			ex.stop = true
		}
		if ex.cfg.MaxViolations > 0 && ex.newViolations >= ex.cfg.MaxViolations {
			ex.stop = true
		}
		ex.cond.Broadcast()
		ex.mu.Unlock()
		if w.ts.Size() > 400000 {
			w.solver.Reset()
			w.ts = NewTermStore()
			// constants cached in objects keep pointing to old terms: they are
			// plain constants/structures and remain valid as values, but hash-consing
			// identity is lost; re-run initialisation to be safe
			w.globals = map[*ssa.Global]*Obj{}
			w.initDone = map[string]bool{}
			if ierr := w.runInits(ex); ierr != nil {
				return ierr
			}
		}
	}
}

func (ex *Explorer) record(r *PathResult) {
	ex.paths++
	ex.pathsByStatus[r.Status]++
	ex.steps += r.Steps
	if r.Decisions > ex.maxDecisions {
		ex.maxDecisions = r.Decisions
	}
	for _, t := range r.Reach {
		ex.reach[t]++
	}
	ex.asserts += int64(r.Asserts)
	ex.assertsSym += int64(r.AssertsSym)
	if r.AssertsSym > 0 || r.Decisions > 0 {
		ex.symPaths++
	}
	if r.Goroutines > ex.maxGoroutines {
		ex.maxGoroutines = r.Goroutines
	}
	for _, k := range r.Known {
		ex.knownHits[k]++
	}
	if r.Violation != nil {
		if len(r.Known) == 0 {
			ex.newViolations++
			ex.violations = append(ex.violations, r.Violation)
		} else {
			// violations inside a listed finding's region: keep a few per region for the replay
			key := strings.Join(r.Known, ",")
			if ex.knownKept == nil {
				ex.knownKept = map[string]int{}
			}
			ex.knownViol++
			if ex.knownKept[key] < 3 {
				ex.knownKept[key]++
				ex.violations = append(ex.violations, r.Violation)
			}
		}
	}
	if r.Status == PathInconclusive {
		if len(ex.inconclusive) < 20 {
			ex.inconclusive = append(ex.inconclusive, r.Msg)
		}
	}
	if r.SelfTest != nil {
		ex.selfPending--
		ex.selfTests = append(ex.selfTests, r.SelfTest)
	}
	if r.Sample != nil && len(ex.samples) < 4 {
		ex.samples = append(ex.samples, r.Sample)
	}
	if ex.cfg.Verbose && (r.Status == PathInconclusive || r.Violation != nil) {
		fmt.Fprintf(os.Stderr, "path %d: status=%d %s\n", ex.paths, r.Status, r.Msg)
	}
}

func (ex *Explorer) pushWork(p []Decision) {
	ex.mu.Lock()
	ex.work = append(ex.work, p)
	ex.cond.Signal()
	ex.mu.Unlock()
}

// ---- one path ----

func (w *World) runPath(ex *Explorer, prefix []Decision) (res *PathResult) {
	it := &Interp{World: w, ex: ex, harness: ex.hname, prefix: prefix, pcSet: map[*Term]bool{}, known: map[string]bool{}}
	w.ts.subst = map[*Term]*Term{}
	w.inPath = true
	res = &PathResult{}
	defer func() {
		if r := recover(); r != nil {
			if pa, ok := r.(pathAbort); ok {
				res.Status = pa.status
				res.Msg = pa.msg
			} else if _, ok := r.(pathCrash); ok {
				it.finishPath(res)
			} else if pv, ok := r.(pathViolation); ok {
				res.Status = PathViolation
				res.Violation = pv.v
				res.Msg = pv.v.Kind + ": " + pv.v.Label
			} else {
				res.Status = PathInconclusive
				res.Msg = fmt.Sprintf("ENGINE-PANIC: %v\n%s", r, debug.Stack())
				if it.cur != nil && len(it.cur.frames) > 0 {
					res.Msg += "\nin " + it.top(it.cur).fn.String()
				}
			}
		}
		res.Steps = it.steps
		res.Decisions = len(it.decisions)
		res.Reach = it.reach
		res.Asserts = it.nAsserts
		res.AssertsSym = it.nAssertsSym
		res.Goroutines = it.goroutinesSpawned
		for k := range it.known {
			res.Known = append(res.Known, k)
		}
		sort.Strings(res.Known)
		if res.Violation != nil {
			res.Violation.Known = res.Known
		}
		w.rollback()
		w.resetPreChans()
		w.inPath = false
		w.ts.subst = map[*Term]*Term{}
	}()
	mainG := &G{id: 0, status: gRunnable, isMain: true, name: "main"}
	it.gs = []*G{mainG}
	it.pushFrame(mainG, ex.harness, nil, nil, nil)
	it.schedule()
	it.finishPath(res)
	return res
}

// finishPath classifies the end state of a completed path.
func (it *Interp) finishPath(res *PathResult) {
	if it.crash != nil {
		// uncaught panic = process crash
		v := it.mkViolation("panic", "uncaught panic", it.crash.desc, nil)
		if v != nil {
			res.Status = PathViolation
			res.Violation = v
			res.Msg = "uncaught panic: " + it.crash.desc
			return
		}
		res.Status = PathInconclusive
		res.Msg = "uncaught panic but path condition model unavailable: " + it.crash.desc
		return
	}
	res.Status = PathOK
	if len(it.obs) > 0 && it.ex.wantSelfTest() {
		if m := it.modelInputs(nil); m != nil {
			st := &SelfTestCase{Inputs: m, Dict: it.dictModel(it.lastModel)}
			memo := map[*Term]uint64{}
			for _, o := range it.obs {
				ov := ObsVal{Tag: o.tag, Vals: make([]uint64, len(o.terms))}
				for i, t := range o.terms {
					ov.Vals[i] = evalTerm(t, it.lastModel, memo)
				}
				st.Obs = append(st.Obs, ov)
			}
			res.SelfTest = st
		}
	}
	if len(it.inputs) > 0 && it.dpos >= len(it.prefix) {
		// sample: a model of this path
		if it.ex.wantSample() {
			if m := it.modelInputs(nil); m != nil {
				res.Sample = m
			}
		}
	}
}

func (ex *Explorer) wantSelfTest() bool {
	ex.mu.Lock()
	defer ex.mu.Unlock()
	// spread the samples: take a path only every so often
	ex.selfSeen++
	if len(ex.selfTests)+ex.selfPending >= ex.cfg.SelfTests {
		return false
	}
	if ex.selfSeen%ex.selfStride() != 1 && ex.selfStride() > 1 {
		return false
	}
	ex.selfPending++
	return true
}

func (ex *Explorer) selfStride() int64 {
	n := int64(len(ex.selfTests) + ex.selfPending)
	switch {
	case n == 0:
		return 1
	case n == 1:
		return 7
	case n < 4:
		return 61
	default:
		return 97
	}
}

func (ex *Explorer) wantSample() bool {
	ex.mu.Lock()
	defer ex.mu.Unlock()
	return len(ex.samples) < 4
}

// modelInputs returns concrete values of all inputs under pc ∧ extra.
func (it *Interp) modelInputs(extra *Term) []InputVal {
	var vars []*Term
	for _, in := range it.inputs {
		if !in.Conc {
			vars = append(vars, in.Term)
		}
	}
	v, model := it.solver.Check(it.pc, extra, vars)
	if v != Sat {
		return nil
	}
	if model == nil {
		model = map[string]uint64{}
	}
	out := make([]InputVal, len(it.inputs))
	for i, in := range it.inputs {
		val := in.Value
		if !in.Conc {
			val = model[in.Term.Name] & mask64(in.W)
		}
		out[i] = InputVal{Tag: in.Tag, W: int(in.W), Val: val}
	}
	it.lastModel = model
	return out
}

func (it *Interp) mkViolation(kind, label, detail string, extra *Term) *Violation {
	ins := it.modelInputs(extra)
	if ins == nil {
		return nil
	}
	for _, og := range it.gs {
		if og.status != gDone && !og.isMain {
			where := ""
			if len(og.frames) > 0 {
				where = it.top(og).fn.String()
			}
			detail += fmt.Sprintf(" [alive g%d %s lib=%v status=%d wait=%s in %s]", og.id, og.name, og.lib, og.status, og.waitTag, where)
		}
	}
	v := &Violation{Harness: it.harness, Label: label, Kind: kind, Detail: detail, Inputs: ins}
	v.Dict = it.dictModel(it.lastModel)
	return v
}

// ---- decisions ----

func (it *Interp) install(term *Term) {
	// term is known true: install simple equalities as substitutions
	ts := it.ts
	switch term.Op {
	case OpEq:
		a, b := term.Args[0], term.Args[1]
		if b.Op == OpConst && a.Op != OpConst {
			ts.subst[a] = b
		} else if a.Op == OpConst && b.Op != OpConst {
			ts.subst[b] = a
		}
	case OpVar:
		if term.W == 0 {
			ts.subst[term] = ts.tt
		}
	case OpNot:
		x := term.Args[0]
		if x.Op == OpOr {
			if a := ts.Not(x.Args[0]); !a.IsConst() {
				it.install(a)
			}
			if b := ts.Not(x.Args[1]); !b.IsConst() {
				it.install(b)
			}
		} else {
			ts.subst[x] = ts.ff
		}
	case OpAnd:
		it.install(term.Args[0])
		it.install(term.Args[1])
	}
	if term.Op != OpConst {
		ts.subst[term] = ts.tt
	}
}

func (it *Interp) take(c *Term, taken, forced bool) {
	term := c
	if !taken {
		term = it.ts.Not(c)
	}
	if term.IsConst() {
		return
	}
	if !forced {
		it.pc = append(it.pc, term)
		it.pcSet[term] = true
	}
	it.install(term)
}

func (it *Interp) replayDecision(kind uint8) (Decision, bool) {
	if it.dpos < len(it.prefix) {
		d := it.prefix[it.dpos]
		it.dpos++
		if d.Kind != kind {
			it.abort(PathInconclusive, "REPLAY-DIVERGED: decision %d kind %d, expected %d", it.dpos-1, d.Kind, kind)
		}
		it.decisions = append(it.decisions, d)
		return d, true
	}
	if len(it.decisions) >= it.cfg.MaxDecisions {
		it.abort(PathInconclusive, "UNWIND: decision depth %d exceeds cap", len(it.decisions))
	}
	return Decision{}, false
}

var forkStat = map[string]int{}
var forkStatMu sync.Mutex

func (it *Interp) noteFork(what string) {
	if os.Getenv("SYMGO_FORKSTAT") == "" {
		return
	}
	where := ""
	if it.cur != nil && len(it.cur.frames) > 0 {
		fr := it.top(it.cur)
		where = fr.fn.Name()
		if fr.block != nil && fr.pc < len(fr.block.Instrs) {
			where += " " + it.prog.Fset.Position(fr.block.Instrs[fr.pc].Pos()).String()
		}
	}
	forkStatMu.Lock()
	forkStat[what+" @ "+where]++
	forkStatMu.Unlock()
}

func (it *Interp) fork(d Decision) {
	sib := make([]Decision, len(it.decisions)+1)
	copy(sib, it.decisions)
	sib[len(it.decisions)] = d
	it.ex.pushWork(sib)
	it.nforks++
}

// decide returns the truth value of c on this path, forking if both are feasible.
func (it *Interp) decide(c *Term, what string) bool {
	c = it.ts.norm(c)
	if c.IsConst() {
		return c.Val == 1
	}
	if d, ok := it.replayDecision(0); ok {
		it.take(c, d.Taken, d.Forced)
		return d.Taken
	}
	vt, _ := it.solver.Check(it.pc, c, nil)
	if vt == Unknown {
		it.unknownBranches++
	}
	if vt == Unsat {
		d := Decision{Kind: 0, Taken: false, Forced: true}
		it.decisions = append(it.decisions, d)
		it.take(c, false, true)
		return false
	}
	nc := it.ts.Not(c)
	vf, _ := it.solver.Check(it.pc, nc, nil)
	if vf == Unknown {
		it.unknownBranches++
	}
	if vf == Unsat {
		d := Decision{Kind: 0, Taken: true, Forced: true}
		it.decisions = append(it.decisions, d)
		it.take(c, true, true)
		return true
	}
	it.noteFork(what)
	it.fork(Decision{Kind: 0, Taken: false})
	it.decisions = append(it.decisions, Decision{Kind: 0, Taken: true})
	it.take(c, true, false)
	return true
}

func termVars(t *Term, seen map[*Term]bool, out *[]*Term) {
	if seen[t] {
		return
	}
	seen[t] = true
	if t.Op == OpVar {
		*out = append(*out, t)
		return
	}
	for i := 0; i < int(t.N); i++ {
		termVars(t.Args[i], seen, out)
	}
}

func (it *Interp) concretize(t *Term, what string) uint64 {
	return it.concretizeN(t, what, it.cfg.SplitLimit)
}

func (it *Interp) concretizeN(t *Term, what string, limit int) uint64 {
	ts := it.ts
	for n := 0; ; n++ {
		t = ts.norm(t)
		if t.IsConst() {
			return t.Val
		}
		if d, ok := it.replayDecision(1); ok {
			eq := ts.Eq(t, ts.Const(t.W, d.Val))
			it.take(eq, d.Taken, d.Forced)
			if d.Taken {
				return d.Val
			}
			continue
		}
		var vars []*Term
		termVars(t, map[*Term]bool{}, &vars)
		v, model := it.solver.Check(it.pc, nil, vars)
		if v == Unsat {
			it.abort(PathInfeasible, "path condition infeasible at concretisation of %s", what)
		}
		if v != Sat {
			it.abort(PathInconclusive, "solver unknown at concretisation of %s", what)
		}
		cand := evalTerm(t, model, map[*Term]uint64{})
		eq := ts.Eq(t, ts.Const(t.W, cand))
		vf, _ := it.solver.Check(it.pc, ts.Not(eq), nil)
		if vf == Unsat {
			it.decisions = append(it.decisions, Decision{Kind: 1, Taken: true, Forced: true, Val: cand})
			it.take(eq, true, true)
			return cand
		}
		if n >= limit {
			it.abort(PathInconclusive, "SPLIT-LIMIT: more than %d values for %s", limit, what)
		}
		it.noteFork("conc " + what)
		it.fork(Decision{Kind: 1, Taken: false, Val: cand})
		it.decisions = append(it.decisions, Decision{Kind: 1, Taken: true, Val: cand})
		it.take(eq, true, false)
		return cand
	}
}

// concretizeLimited concretises an allocation size; sizes above max end the path.
func (it *Interp) concretizeLimited(t *Term, what string, max uint64) uint64 {
	t = it.ts.norm(t)
	if t.IsConst() {
		if t.Val > max {
			it.bigAlloc(t, what)
		}
		return t.Val
	}
	if !it.decide(it.ts.Ule(t, it.ts.Const(t.W, max)), "alloc size limit") {
		it.bigAlloc(t, what)
	}
	return it.concretize(t, what)
}

func (it *Interp) bigAlloc(t *Term, what string) {
	if it.allocLimit != nil {
		// the harness asked for allocation accounting: report as violation
		v := it.mkViolation("alloc", "allocation bounded by supplied bytes", fmt.Sprintf("%s of size %s exceeds engine cap %d", what, t, it.cfg.MaxAlloc), nil)
		if v != nil {
			panic(pathViolation{v})
		}
	}
	it.abort(PathInconclusive, "allocation %s larger than engine cap %d (%s)", what, it.cfg.MaxAlloc, t)
}

type pathViolation struct{ v *Violation }

type obsRec struct {
	tag   string
	terms []*Term
}

// ObsVal is one observation evaluated under a path model.
type ObsVal struct {
	Tag  string   `json:"tag"`
	Vals []uint64 `json:"vals"`
}

// SelfTestCase is a completed path with a model and the values the harness observed on it.
type SelfTestCase struct {
	Inputs []InputVal
	Dict   []DictEntry
	Obs    []ObsVal
}

// assume adds c to the path condition; prunes the path if infeasible.
func (it *Interp) assume(c *Term) {
	c = it.ts.norm(c)
	if c.IsConst() {
		if c.Val == 0 {
			it.abort(PathPruned, "assumption false")
		}
		return
	}
	if d, ok := it.replayDecision(2); ok {
		_ = d
		it.take(c, true, false)
		return
	}
	v, _ := it.solver.Check(it.pc, c, nil)
	if v == Unsat {
		it.abort(PathPruned, "assumption infeasible")
	}
	it.decisions = append(it.decisions, Decision{Kind: 2, Taken: true})
	it.take(c, true, false)
}

// choose forks over n concrete alternatives (no solver involved).
func (it *Interp) choose(n int, what string) int {
	if n <= 1 {
		return 0
	}
	if d, ok := it.replayDecision(3); ok {
		return int(d.Val)
	}
	it.noteFork("choose " + what)
	for i := n - 1; i >= 1; i-- {
		it.fork(Decision{Kind: 3, Val: uint64(i)})
	}
	it.decisions = append(it.decisions, Decision{Kind: 3, Val: 0})
	return 0
}

// assertHolds checks an assertion; on violation the path ends.
func (it *Interp) assertHolds(c *Term, label string) {
	it.nAsserts++
	c = it.ts.norm(c)
	if c.IsConst() {
		if c.Val == 1 {
			return
		}
		v := it.mkViolation("assert", label, "assertion is false on this path", nil)
		if v == nil {
			it.abort(PathInconclusive, "assertion %q false but no model for the path", label)
		}
		panic(pathViolation{v})
	}
	it.nAssertsSym++
	if os.Getenv("SYMGO_ASSERTDUMP") != "" {
		fmt.Fprintf(os.Stderr, "ASSERT %s: %s\n", label, c)
	}
	nc := it.ts.Not(c)
	verdict, _ := it.solver.Check(it.pc, nc, nil)
	switch verdict {
	case Unsat:
		it.take(c, true, true)
		return
	case Unknown:
		it.abort(PathInconclusive, "solver unknown on assertion %q", label)
	}
	v := it.mkViolation("assert", label, "assertion can be false: "+c.String(), nc)
	if v == nil {
		it.abort(PathInconclusive, "assertion %q refuted but model extraction failed", label)
	}
	panic(pathViolation{v})
}

func fmtInputs(ins []InputVal) string {
	var sb strings.Builder
	for i, in := range ins {
		if i > 0 {
			sb.WriteString(" ")
		}
		fmt.Fprintf(&sb, "%s=%d", in.Tag, in.Val)
	}
	return sb.String()
}
