package main

import (
	"encoding/json"
	"flag"
	"fmt"
	"os"
	"path/filepath"
	"runtime"
	"sort"
	"strconv"
	"strings"
	"time"
)

type HarnessSpec struct {
	Name      string           `json:"name"`
	Pkg       string           `json:"pkg"` // directory relative to repo, e.g. "diam"
	Quick     map[string]int64 `json:"quick"`
	Thorough  map[string]int64 `json:"thorough"`
	Sched     bool             `json:"sched"`
	Preempt   [2]int           `json:"preempt"`
	InitDict  bool             `json:"init_dict"`
	Skip      string           `json:"skip,omitempty"` // "quick" => thorough only
	Whitebox  bool             `json:"whitebox,omitempty"`
	Summarise []string         `json:"summarise,omitempty"`
	What      string           `json:"what"`
}

type CheckSpec struct {
	Title       string        `json:"title"`
	Harnesses   []HarnessSpec `json:"harnesses"`
	Explanation string        `json:"explanation"`
	Assumptions []string      `json:"assumptions"`
	Outside     []string      `json:"outside_bounds"`
	Rule        string        `json:"rule"`
}

type KnownFinding struct {
	Property string `json:"property"`
	ID       string `json:"id"`
	Status   string `json:"status"` // known | fixed
	Commit   string `json:"commit,omitempty"`
	What     string `json:"what"`
}

func verifDir() string {
	if d := os.Getenv("VERIF_DIR"); d != "" {
		return d
	}
	exe, err := os.Executable()
	if err == nil {
		return filepath.Dir(filepath.Dir(exe))
	}
	return "/verif"
}

func main() {
	if len(os.Args) < 2 {
		fmt.Fprintln(os.Stderr, "usage: symgo run|selfcheck ...")
		os.Exit(2)
	}
	switch os.Args[1] {
	case "run":
		code := cmdRun(os.Args[2:])
		dictHelp.cleanup()
		os.Exit(code)
	case "termtest":
		os.Exit(cmdTermTest())
	default:
		fmt.Fprintln(os.Stderr, "unknown command", os.Args[1])
		os.Exit(2)
	}
}

func cmdRun(args []string) int {
	fs := flag.NewFlagSet("run", flag.ExitOnError)
	prop := fs.String("prop", "", "property id")
	tier := fs.String("tier", "quick", "quick|thorough")
	only := fs.String("harness", "", "run only this harness")
	workers := fs.Int("workers", 0, "worker count (default: min(16, NumCPU))")
	repo := fs.String("repo", "/repo", "repository directory")
	trace := fs.Bool("trace", false, "trace instructions")
	verbose := fs.Bool("v", false, "verbose")
	noReplay := fs.Bool("noreplay", false, "skip native replay (development only: never prints VIOLATION)")
	solverKind := fs.String("solver", "z3", "z3|z3-new|cvc5")
	noEvidence := fs.Bool("noevidence", false, "do not write the evidence file")
	maxPaths := fs.Int64("maxpaths", 0, "path budget override")
	selfN := fs.Int("selftests", -1, "number of sample paths per harness compared with native runs (default 2 quick / 4 thorough)")
	var paramFlags multiFlag
	fs.Var(&paramFlags, "p", "parameter override name=value")
	fs.Parse(args)
	vd := verifDir()
	t0 := time.Now()
	seed := int64(0)
	if s := os.Getenv("VERIF_SEED"); s != "" {
		seed, _ = strconv.ParseInt(s, 10, 64)
	}

	var checks map[string]*CheckSpec
	if err := readJSON(filepath.Join(vd, "checks.json"), &checks); err != nil {
		fmt.Fprintln(os.Stderr, "cannot read checks.json:", err)
		return 2
	}
	spec := checks[*prop]
	if spec == nil {
		fmt.Fprintln(os.Stderr, "unknown property", *prop)
		return 2
	}
	var known []KnownFinding
	readJSON(filepath.Join(vd, "known_findings.json"), &known)
	knownIDs := map[string]bool{}
	knownWhat := map[string]string{}
	for _, k := range known {
		if k.Property == *prop && k.Status == "known" {
			knownIDs[k.ID] = true
			knownWhat[k.ID] = k.What
		}
	}

	// files generated from /repo's current source go to a directory private to this run (checks may
	// run concurrently, possibly against different trees)
	gd, gerr := os.MkdirTemp("", "symgo-gen-")
	if gerr != nil {
		fmt.Fprintln(os.Stderr, "generate:", gerr)
		return 2
	}
	genDir = gd
	defer os.RemoveAll(gd)
	if err := generateHarnessInputs(*repo, gd); err != nil {
		fmt.Fprintln(os.Stderr, "generate:", err)
		return 2
	}
	P, err := LoadProgram(*repo, filepath.Join(vd, "harness"), []string{"./diam/..."})
	if err != nil {
		fmt.Fprintln(os.Stderr, "load:", err)
		return 2
	}
	for f, e := range droppedHarness {
		fmt.Fprintf(os.Stderr, "symgo: harness file %s left out (does not compile against this tree): %s\n", f, firstLine(e))
	}
	loadS := time.Since(t0).Seconds()
	nw := *workers
	if nw <= 0 {
		nw = runtime.NumCPU()
		if nw > 16 {
			nw = 16
		}
	}
	if e := os.Getenv("VERIF_WORKERS"); e != "" {
		if n, err := strconv.Atoi(e); err == nil && n > 0 {
			nw = n
		}
	}

	rep := &Report{Prop: *prop, Tier: *tier, Seed: seed, Spec: spec, LoadS: loadS, Workers: nw, KnownWhat: knownWhat}
	exit := 0
	for _, hs := range spec.Harnesses {
		if *only != "" && hs.Name != *only {
			continue
		}
		if hs.Skip == *tier {
			continue
		}
		pkgPath := repoModule + "/" + hs.Pkg
		fn := P.Func(pkgPath, hs.Name)
		if fn == nil && hs.Whitebox && len(droppedHarness) > 0 {
			// a white-box harness names unexported parts of the package; when those are renamed its file no
			// longer compiles and is left out: noted, not counted against the property
			note := fmt.Sprintf("NOTE: white-box harness %s left out (its file no longer compiles against this tree); the obligation it carries is not checked in this run", hs.Name)
			fmt.Println(note)
			rep.Notes = append(rep.Notes, note)
			continue
		}
		if fn == nil {
			msg := fmt.Sprintf("harness %s not found in %s", hs.Name, pkgPath)
			for f, e := range droppedHarness {
				msg += fmt.Sprintf("; harness file %s does not compile against this tree: %s", f, firstLine(e))
			}
			fmt.Fprintln(os.Stderr, msg)
			fmt.Println("INCONCLUSIVE: " + msg)
			rep.Inconclusive = append(rep.Inconclusive, msg)
			exit = 2
			continue
		}
		params := map[string]int64{}
		src := hs.Quick
		if *tier == "thorough" {
			src = hs.Thorough
			for k, v := range hs.Quick {
				params[k] = v
			}
		}
		for k, v := range src {
			params[k] = v
		}
		// dict's init() (which loads the embedded dictionaries into dict.Default) always runs: code under
		// test may refer to dict.Default even where the harness hands it another dictionary
		_ = hs.InitDict
		params["init_dict"] = 1
		for _, pf := range paramFlags {
			kv := strings.SplitN(pf, "=", 2)
			if len(kv) == 2 {
				n, _ := strconv.ParseInt(kv[1], 10, 64)
				params[kv[0]] = n
			}
		}
		selfTests := 2
		if *tier == "thorough" {
			selfTests = 4
		}
		if *selfN >= 0 {
			selfTests = *selfN
		}
		if *noReplay {
			selfTests = 0
		}
		pre := hs.Preempt[0]
		if *tier == "thorough" {
			pre = hs.Preempt[1]
		}
		cfg := &Config{MaxSteps: 50_000_000, MaxCallDepth: 400, MaxAlloc: 1 << 16, MaxDecisions: 4000, SplitLimit: 300,
			Trace: *trace, QueryTimeoutMs: 20000, Workers: nw, Params: params, InitPkgs: []string{pkgPath},
			ExploreSched: hs.Sched, Preempt: pre, MaxViolations: 24, SelfTests: selfTests, Solver: SolverKind(*solverKind), Verbose: *verbose}
		cfg.Summaries = map[string]bool{}
		for _, sname := range hs.Summarise {
			cfg.Summaries[repoModule+"/"+sname] = true
		}
		for sname := range cfg.Summaries {
			i := strings.LastIndex(sname, ".")
			sf := P.Func(sname[:i], sname[i+1:])
			if sf == nil {
				fmt.Fprintf(os.Stderr, "summarised function %s not found\n", sname)
				return 2
			}
			if err := checkPure(sf, cfg.Summaries); err != nil {
				fmt.Fprintf(os.Stderr, "cannot summarise: %v\n", err)
				return 2
			}
		}
		if v, ok := params["max_steps"]; ok {
			cfg.MaxSteps = v
		}
		if v, ok := params["max_depth"]; ok {
			cfg.MaxCallDepth = int(v)
		}
		if v, ok := params["split_limit"]; ok {
			cfg.SplitLimit = int(v)
		}
		if v, ok := params["max_alloc"]; ok {
			cfg.MaxAlloc = uint64(v)
		}
		if v, ok := params["max_decisions"]; ok {
			cfg.MaxDecisions = int(v)
		}
		if *tier == "thorough" {
			cfg.QueryTimeoutMs = 60000
		}
		// every harness runs under a wall budget (exhausting it is reported as inconclusive, never as held):
		// a change to the tree under test may multiply the paths or schedules of a harness
		cfg.Wall = 15 * time.Minute
		if *tier == "thorough" {
			cfg.Wall = 60 * time.Minute
		}
		if v, ok := params["wall_s"]; ok {
			cfg.Wall = time.Duration(v) * time.Second
		}
		if *maxPaths > 0 {
			cfg.MaxPaths = *maxPaths
		}
		if *trace {
			cfg.Workers = 1
		}
		ex := NewExplorer(P, cfg, fn, hs.Name)
		ex.knownIDs = knownIDs
		h0 := time.Now()
		if err := ex.Run(); err != nil {
			fmt.Fprintf(os.Stderr, "harness %s: %v\n", hs.Name, err)
			rep.Inconclusive = append(rep.Inconclusive, hs.Name+": "+err.Error())
		}
		hr := rep.addHarness(hs, ex, time.Since(h0), params)
		if *verbose {
			fmt.Fprintf(os.Stderr, "%s: paths=%d ok=%d pruned=%d viol=%d inconcl=%d queries=%v solver=%.1fs wall=%.1fs\n", hs.Name, ex.paths,
				ex.pathsByStatus[PathOK], ex.pathsByStatus[PathPruned]+ex.pathsByStatus[PathInfeasible], ex.pathsByStatus[PathViolation], ex.pathsByStatus[PathInconclusive],
				ex.queries, ex.solverTime.Seconds(), time.Since(h0).Seconds())
			for _, m := range ex.inconclusive {
				fmt.Fprintln(os.Stderr, "  inconclusive:", m)
			}
		}
		// classify violations
		code := rep.classify(P, hs, ex, hr, vd, *repo, knownIDs, *noReplay)
		if code == 1 {
			exit = 1 // a violation reproduced against the real build stands whatever else was inconclusive
		} else if code > exit && exit != 1 {
			exit = code
		}
		if sc := rep.selfTest(hs, ex, hr, vd, *repo, knownIDs); sc > exit && exit != 1 && !*noReplay {
			exit = sc
		}
		if exit != 1 && (len(ex.inconclusive) > 0 || ex.budgetExceeded != "" || ex.pathsByStatus[PathInconclusive] > 0) {
			exit = 2
			if ex.budgetExceeded != "" {
				rep.Inconclusive = append(rep.Inconclusive, hs.Name+": "+ex.budgetExceeded)
			}
			for _, m := range ex.inconclusive {
				rep.Inconclusive = append(rep.Inconclusive, hs.Name+": "+firstLine(m))
			}
		}
		// vacuity: every harness must reach its marker at least once
		if len(ex.reach) == 0 && exit == 0 && len(ex.violations) == 0 {
			rep.Inconclusive = append(rep.Inconclusive, hs.Name+": VACUOUS: no path reached a vReach marker")
			exit = 2
		}
	}
	if os.Getenv("SYMGO_FORKSTAT") != "" {
		type kv struct {
			k string
			v int
		}
		var l []kv
		for k, v := range forkStat {
			l = append(l, kv{k, v})
		}
		sort.Slice(l, func(i, j int) bool { return l[i].v > l[j].v })
		for i, e := range l {
			if i > 40 {
				break
			}
			fmt.Fprintf(os.Stderr, "FORK %7d %s\n", e.v, e.k)
		}
	}
	rep.WallS = time.Since(t0).Seconds()
	rep.Exit = exit
	if !*noEvidence {
		if err := rep.write(filepath.Join(vd, "evidence", *prop+".json"), P); err != nil {
			fmt.Fprintln(os.Stderr, "evidence:", err)
			return 2
		}
	}
	for _, l := range rep.Lines {
		fmt.Println(l)
	}
	if exit == 2 {
		sort.Strings(rep.Inconclusive)
		for i, m := range rep.Inconclusive {
			if i > 12 {
				break
			}
			fmt.Println("INCONCLUSIVE:", m)
		}
	}
	fmt.Printf("symgo: property=%s tier=%s exit=%d paths=%d obligations=%d wall=%.1fs\n", *prop, *tier, exit, rep.totalPaths(), rep.totalObligations(), rep.WallS)
	return exit
}

type multiFlag []string

func (m *multiFlag) String() string     { return strings.Join(*m, ",") }
func (m *multiFlag) Set(s string) error { *m = append(*m, s); return nil }

func readJSON(path string, v interface{}) error {
	data, err := os.ReadFile(path)
	if err != nil {
		return err
	}
	return json.Unmarshal(data, v)
}

func firstLine(s string) string {
	if i := strings.IndexByte(s, '\n'); i >= 0 {
		return s[:i]
	}
	return s
}

func cmdTermTest() int {
	ts := NewTermStore()
	s, err := NewSolver(Z3, 5000)
	if err != nil {
		fmt.Println(err)
		return 2
	}
	defer s.Close()
	x := ts.Var(32, "x")
	y := ts.Var(32, "y")
	c1 := ts.Ult(x, ts.Const(32, 10))
	c2 := ts.Eq(ts.Bin(OpBvAdd, x, y), ts.Const(32, 5))
	v, m := s.Check([]*Term{c1, c2}, ts.Ult(ts.Const(32, 100), y), []*Term{x, y})
	fmt.Println(v, m)
	v, _ = s.Check([]*Term{c1}, ts.Ult(ts.Const(32, 100), x), nil)
	fmt.Println(v)
	return 0
}
