package main

// Engine-level implementations ("stubs") of functions that cannot or should not
// be interpreted from source.  Every stub's contract is part of each claim that
// touches it; the evidence lists the stubs actually hit.

import (
	"fmt"
	"go/types"
	"net"
	"strconv"
	"strings"

	"golang.org/x/tools/go/ssa"
)

func reg(name string, f Intrinsic) { intrinsics[name] = f }

func retNone(it *Interp, g *G, fr *Frame, args []Value, site ssa.Instruction) (Value, stepResult) {
	return nil, stOK
}

func init() {
	// ---- logging / runtime: no effect ----
	for _, n := range []string{"log.Printf", "log.Println", "log.Print", "(*log.Logger).Printf", "(*log.Logger).Println",
		"math/rand.Seed", "runtime.Gosched", "runtime.GC", "runtime.KeepAlive", "runtime.SetFinalizer",
		"fmt.Printf", "fmt.Println", "fmt.Print"} {
		reg(n, retNone)
	}
	reg("log.Fatal", intrFatal)
	reg("log.Fatalf", intrFatal)
	reg("log.Fatalln", intrFatal)
	reg("runtime.Stack", func(it *Interp, g *G, fr *Frame, args []Value, site ssa.Instruction) (Value, stepResult) {
		return it.ts.Const(64, 0), stOK
	})
	reg("math/rand.Uint32", func(it *Interp, g *G, fr *Frame, args []Value, site ssa.Instruction) (Value, stepResult) {
		return it.freshInput("rand.Uint32", "u32", 32), stOK
	})
	reg("math/rand.Int63", func(it *Interp, g *G, fr *Frame, args []Value, site ssa.Instruction) (Value, stepResult) {
		v := it.freshInput("rand.Int63", "u64", 64)
		return it.ts.Zext(it.ts.Extract(v, 62, 0), 64), stOK
	})
	// ---- math bit casts ----
	ident := func(it *Interp, g *G, fr *Frame, args []Value, site ssa.Instruction) (Value, stepResult) {
		return args[0], stOK
	}
	reg("math.Float32bits", ident)
	reg("math.Float32frombits", ident)
	reg("math.Float64bits", ident)
	reg("math.Float64frombits", ident)

	// ---- fmt ----
	reg("fmt.Sprintf", intrSprintf)
	reg("fmt.Errorf", intrErrorf)
	reg("errors.Is", intrErrorsIs)
	reg("errors.As", intrErrorsAs)
	reg("fmt.Sprint", intrSprint)
	reg("fmt.Sprintln", intrSprint)
	reg("fmt.Fprintf", intrFprintf)
	reg("fmt.Fprint", intrFprint)
	reg("fmt.Fprintln", intrFprint)

	// ---- sync ----
	reg("(*sync.Mutex).Lock", intrMutexLock)
	reg("(*sync.Mutex).Unlock", intrMutexUnlock)
	reg("(*sync.Mutex).TryLock", intrMutexTryLock)
	reg("(*sync.RWMutex).Lock", intrRWLock)
	reg("(*sync.RWMutex).Unlock", intrRWUnlock)
	reg("(*sync.RWMutex).RLock", intrRWRLock)
	reg("(*sync.RWMutex).RUnlock", intrRWRUnlock)
	reg("(*sync.Once).Do", intrOnceDo)
	reg("(*sync.Pool).Get", intrPoolGet)
	reg("(*sync.Pool).Put", intrPoolPut)
	reg("(*sync.WaitGroup).Add", intrWGAdd)
	reg("(*sync.WaitGroup).Done", intrWGDone)
	reg("(*sync.WaitGroup).Wait", intrWGWait)
	reg("sync/atomic.LoadPointer", func(it *Interp, g *G, fr *Frame, args []Value, site ssa.Instruction) (Value, stepResult) {
		p := args[0].(*Ptr)
		v := p.obj.get(p.off)
		if up, ok := v.(*UnsafePtr); ok {
			return up, stOK
		}
		if isNilValue(v) {
			return (*UnsafePtr)(nil), stOK
		}
		return &UnsafePtr{v: v}, stOK
	})
	reg("sync/atomic.StorePointer", func(it *Interp, g *G, fr *Frame, args []Value, site ssa.Instruction) (Value, stepResult) {
		p := args[0].(*Ptr)
		var v Value = args[1]
		if up, ok := v.(*UnsafePtr); ok && up != nil {
			// storing through a *unsafe.Pointer that aliases a typed slot: keep the typed value
			v = up.v
		}
		it.set(p.obj, p.off, v)
		return nil, stOK
	})
	reg("sync/atomic.SwapPointer", func(it *Interp, g *G, fr *Frame, args []Value, site ssa.Instruction) (Value, stepResult) {
		p := args[0].(*Ptr)
		it.visible(g)
		old := p.obj.get(p.off)
		var v Value = args[1]
		if up, ok := v.(*UnsafePtr); ok && up != nil {
			v = up.v
		}
		it.set(p.obj, p.off, v)
		if up, ok := old.(*UnsafePtr); ok {
			return up, stOK
		}
		if isNilValue(old) {
			return (*UnsafePtr)(nil), stOK
		}
		return &UnsafePtr{v: old}, stOK
	})
	for _, w := range []string{"Int32", "Int64", "Uint32", "Uint64"} {
		w := w
		reg("sync/atomic.Load"+w, func(it *Interp, g *G, fr *Frame, args []Value, site ssa.Instruction) (Value, stepResult) {
			p := args[0].(*Ptr)
			it.visible(g)
			return p.obj.get(p.off), stOK
		})
		reg("sync/atomic.Store"+w, func(it *Interp, g *G, fr *Frame, args []Value, site ssa.Instruction) (Value, stepResult) {
			p := args[0].(*Ptr)
			it.set(p.obj, p.off, args[1])
			it.visible(g)
			return nil, stOK
		})
		reg("sync/atomic.Add"+w, func(it *Interp, g *G, fr *Frame, args []Value, site ssa.Instruction) (Value, stepResult) {
			p := args[0].(*Ptr)
			nv := it.ts.Bin(OpBvAdd, p.obj.get(p.off).(*Term), args[1].(*Term))
			it.set(p.obj, p.off, nv)
			it.visible(g)
			return nv, stOK
		})
		reg("sync/atomic.CompareAndSwap"+w, func(it *Interp, g *G, fr *Frame, args []Value, site ssa.Instruction) (Value, stepResult) {
			p := args[0].(*Ptr)
			cur := p.obj.get(p.off).(*Term)
			it.visible(g)
			if it.decide(it.ts.Eq(cur, args[1].(*Term)), "CAS") {
				it.set(p.obj, p.off, args[2])
				return it.ts.tt, stOK
			}
			return it.ts.ff, stOK
		})
		// method forms on atomic.IntNN (first slot of the struct is the value)
		for _, m := range []string{"Load", "Store", "Add", "CompareAndSwap"} {
			m := m
			reg("(*sync/atomic."+w+")."+m, func(it *Interp, g *G, fr *Frame, args []Value, site ssa.Instruction) (Value, stepResult) {
				return intrinsics["sync/atomic."+m+w](it, g, fr, args, site)
			})
		}
	}
	reg("(*sync/atomic.Bool).Load", func(it *Interp, g *G, fr *Frame, args []Value, site ssa.Instruction) (Value, stepResult) {
		p := args[0].(*Ptr)
		return it.ts.Not(it.ts.Eq(p.obj.get(p.off).(*Term), it.ts.Const(32, 0))), stOK
	})
	reg("(*sync/atomic.Bool).Store", func(it *Interp, g *G, fr *Frame, args []Value, site ssa.Instruction) (Value, stepResult) {
		p := args[0].(*Ptr)
		it.set(p.obj, p.off, it.ts.Ite(args[1].(*Term), it.ts.Const(32, 1), it.ts.Const(32, 0)))
		return nil, stOK
	})

	// ---- bytealg ----
	reg("internal/bytealg.IndexByte", func(it *Interp, g *G, fr *Frame, args []Value, site ssa.Instruction) (Value, stepResult) {
		s, _ := args[0].(*Slice)
		n := 0
		if !isNilValue(s) {
			n = s.len
		}
		cells := make([]*Term, n)
		for i := 0; i < n; i++ {
			cells[i] = s.obj.get(s.off + i).(*Term)
		}
		return it.indexByte(cells, args[1].(*Term)), stOK
	})
	reg("internal/bytealg.IndexByteString", func(it *Interp, g *G, fr *Frame, args []Value, site ssa.Instruction) (Value, stepResult) {
		return it.indexByte(it.strCells(args[0].(*Str)), args[1].(*Term)), stOK
	})
	reg("internal/bytealg.MakeNoZero", func(it *Interp, g *G, fr *Frame, args []Value, site ssa.Instruction) (Value, stepResult) {
		n := int(it.concretizeLimited(args[0].(*Term), "MakeNoZero", it.cfg.MaxAlloc))
		o := it.newArrayObj(types.Typ[types.Uint8], n, "MakeNoZero")
		it.ghostAlloc(int64(n))
		return &Slice{obj: o, len: n, cap: n, esz: 1}, stOK
	})
	reg("internal/bytealg.Equal", func(it *Interp, g *G, fr *Frame, args []Value, site ssa.Instruction) (Value, stepResult) {
		return it.bytesEq(args[0], args[1]), stOK
	})
	reg("bytes.Equal", func(it *Interp, g *G, fr *Frame, args []Value, site ssa.Instruction) (Value, stepResult) {
		return it.bytesEq(args[0], args[1]), stOK
	})
	reg("internal/bytealg.CountString", func(it *Interp, g *G, fr *Frame, args []Value, site ssa.Instruction) (Value, stepResult) {
		s := args[0].(*Str)
		c := args[1].(*Term)
		if !s.IsConc() || !c.IsConst() {
			it.unsupported("bytealg.CountString on symbolic data")
		}
		return it.ts.Const(64, uint64(strings.Count(s.conc, string([]byte{byte(c.Val)})))), stOK
	})

	// ---- strings / strconv / net on concrete arguments: evaluated natively ----
	reg("strings.Index", nativeSS(func(a, b string) int { return strings.Index(a, b) }))
	reg("strings.LastIndex", nativeSS(func(a, b string) int { return strings.LastIndex(a, b) }))
	reg("strings.Count", nativeSS(func(a, b string) int { return strings.Count(a, b) }))
	reg("strings.Contains", func(it *Interp, g *G, fr *Frame, args []Value, site ssa.Instruction) (Value, stepResult) {
		a, b := args[0].(*Str), args[1].(*Str)
		if !a.IsConc() || !b.IsConc() {
			it.unsupported("strings.Contains on symbolic strings")
		}
		return it.ts.Bool(strings.Contains(a.conc, b.conc)), stOK
	})
	reg("strings.Split", func(it *Interp, g *G, fr *Frame, args []Value, site ssa.Instruction) (Value, stepResult) {
		a, b := args[0].(*Str), args[1].(*Str)
		if !a.IsConc() || !b.IsConc() {
			it.unsupported("strings.Split on symbolic strings")
		}
		parts := strings.Split(a.conc, b.conc)
		o := it.newObj(len(parts), "strings.Split")
		for i, p := range parts {
			o.cells[i] = concStr(p)
		}
		return &Slice{obj: o, len: len(parts), cap: len(parts), esz: 1}, stOK
	})
	reg("strings.ToLower", nativeS(strings.ToLower))
	reg("strings.ToUpper", nativeS(strings.ToUpper))
	reg("strings.TrimSpace", nativeS(strings.TrimSpace))
	reg("strconv.Itoa", func(it *Interp, g *G, fr *Frame, args []Value, site ssa.Instruction) (Value, stepResult) {
		t := args[0].(*Term)
		if !t.IsConst() {
			return concStr("<itoa>"), stOK
		}
		return concStr(strconv.Itoa(int(int64(t.Val)))), stOK
	})
	reg("net.ParseIP", func(it *Interp, g *G, fr *Frame, args []Value, site ssa.Instruction) (Value, stepResult) {
		s := args[0].(*Str)
		if !s.IsConc() {
			it.unsupported("net.ParseIP on symbolic string")
		}
		ip := net.ParseIP(s.conc)
		if ip == nil {
			return (*Slice)(nil), stOK
		}
		o := it.newObj(len(ip), "net.ParseIP")
		for i, b := range ip {
			o.cells[i] = it.ts.Const(8, uint64(b))
		}
		return &Slice{obj: o, len: len(ip), cap: len(ip), esz: 1}, stOK
	})
	reg("(net.IP).String", func(it *Interp, g *G, fr *Frame, args []Value, site ssa.Instruction) (Value, stepResult) {
		return concStr("<ip>"), stOK
	})

	// ---- reflectlite (context.WithValue) ----
	reg("internal/reflectlite.TypeOf", func(it *Interp, g *G, fr *Frame, args []Value, site ssa.Instruction) (Value, stepResult) {
		iv, _ := args[0].(*Iface)
		if isNilValue(iv) {
			return (*Iface)(nil), stOK
		}
		return &Iface{typ: it.rtypeT(), val: &RType{t: iv.typ}}, stOK
	})
	reg("reflect.Type.Comparable", func(it *Interp, g *G, fr *Frame, args []Value, site ssa.Instruction) (Value, stepResult) {
		return it.ts.Bool(types.Comparable(args[0].(*RType).t)), stOK
	})
	reg("reflect.Type.Elem", func(it *Interp, g *G, fr *Frame, args []Value, site ssa.Instruction) (Value, stepResult) {
		t := args[0].(*RType).t
		var e types.Type
		switch u := t.Underlying().(type) {
		case *types.Pointer:
			e = u.Elem()
		case *types.Slice:
			e = u.Elem()
		case *types.Array:
			e = u.Elem()
		case *types.Map:
			e = u.Elem()
		case *types.Chan:
			e = u.Elem()
		default:
			it.pendingPanic = "reflect: Elem of invalid type " + t.String()
			return nil, stOK
		}
		return &Iface{typ: it.rtypeT(), val: &RType{t: it.canonT(e)}}, stOK
	})
	reg("reflect.Type.String", func(it *Interp, g *G, fr *Frame, args []Value, site ssa.Instruction) (Value, stepResult) {
		return concStr(shortTypeString(args[0].(*RType).t)), stOK
	})

	// ---- time ----
	reg("time.Now", func(it *Interp, g *G, fr *Frame, args []Value, site ssa.Instruction) (Value, stepResult) {
		return it.timeValue(it.clock), stOK
	})
	reg("time.After", func(it *Interp, g *G, fr *Frame, args []Value, site ssa.Instruction) (Value, stepResult) {
		d := int64(it.concretize(args[0].(*Term), "time.After duration"))
		tt := it.timeType()
		ch := it.newChan(1, tt)
		it.timers = append(it.timers, &timer{deadline: it.clock + d, ch: ch, id: len(it.timers)})
		it.events = append(it.events, fmt.Sprintf("timer+%d", d))
		return &ChanV{c: ch}, stOK
	})
	reg("time.Sleep", func(it *Interp, g *G, fr *Frame, args []Value, site ssa.Instruction) (Value, stepResult) {
		if fr.resume != nil {
			fr.resume = nil
			return nil, stOK
		}
		d := int64(it.concretize(args[0].(*Term), "time.Sleep duration"))
		if d <= 0 {
			return nil, stOK
		}
		it.timers = append(it.timers, &timer{deadline: it.clock + d, g: g, id: len(it.timers)})
		fr.resume = &waiter{g: g}
		return nil, it.block(g, "sleep")
	})
	// time.Timer (old asynchronous channel semantics: the repository's go.mod says go 1.20)
	reg("time.NewTimer", func(it *Interp, g *G, fr *Frame, args []Value, site ssa.Instruction) (Value, stepResult) {
		d := int64(it.concretize(args[0].(*Term), "time.NewTimer duration"))
		tp := it.P.pkgs["time"]
		o := it.newTypedObj(tp.Type("Timer").Type(), "time.Timer")
		ch := it.newChan(1, it.timeType())
		o.cells[0] = &ChanV{c: ch}
		tm := &timer{deadline: it.clock + d, ch: ch, id: len(it.timers)}
		it.timers = append(it.timers, tm)
		if it.goTimers == nil {
			it.goTimers = map[*Obj]*timer{}
		}
		it.goTimers[o] = tm
		return &Ptr{obj: o}, stOK
	})
	reg("(*time.Timer).Stop", func(it *Interp, g *G, fr *Frame, args []Value, site ssa.Instruction) (Value, stepResult) {
		p := args[0].(*Ptr)
		tm := it.goTimers[p.obj]
		if tm == nil {
			it.unsupported("Stop on a timer the engine did not create")
		}
		active := !tm.fired && !tm.stopped
		tm.stopped = true
		return it.ts.Bool(active), stOK
	})
	reg("(*time.Timer).Reset", func(it *Interp, g *G, fr *Frame, args []Value, site ssa.Instruction) (Value, stepResult) {
		p := args[0].(*Ptr)
		old := it.goTimers[p.obj]
		if old == nil {
			it.unsupported("Reset on a timer the engine did not create")
		}
		active := !old.fired && !old.stopped
		old.stopped = true
		d := int64(it.concretize(args[1].(*Term), "Timer.Reset duration"))
		tm := &timer{deadline: it.clock + d, ch: old.ch, id: len(it.timers)}
		it.timers = append(it.timers, tm)
		it.goTimers[p.obj] = tm
		return it.ts.Bool(active), stOK
	})
	reg("(time.Time).String", func(it *Interp, g *G, fr *Frame, args []Value, site ssa.Instruction) (Value, stepResult) {
		return concStr("<time>"), stOK
	})
	reg("(time.Duration).String", func(it *Interp, g *G, fr *Frame, args []Value, site ssa.Instruction) (Value, stepResult) {
		return concStr("<duration>"), stOK
	})
}

func intrFatal(it *Interp, g *G, fr *Frame, args []Value, site ssa.Instruction) (Value, stepResult) {
	it.pendingPanic = "log.Fatal called (process exit)"
	return nil, stOK
}

func (it *Interp) timeType() types.Type {
	if tp := it.P.pkgs["time"]; tp != nil {
		return tp.Type("Time").Type()
	}
	it.unsupported("package time not loaded")
	return nil
}

func (it *Interp) rtypeT() types.Type {
	// dynamic type tag used for modelled reflect types
	if it.rtypeTag == nil {
		it.rtypeTag = types.NewNamed(types.NewTypeName(0, nil, "symgo.rtype", nil), types.NewStruct(nil, nil), nil)
	}
	return it.rtypeTag
}

func shortTypeString(t types.Type) string {
	return types.TypeString(t, func(p *types.Package) string { return p.Name() })
}

func nativeSS(f func(a, b string) int) Intrinsic {
	return func(it *Interp, g *G, fr *Frame, args []Value, site ssa.Instruction) (Value, stepResult) {
		a, b := args[0].(*Str), args[1].(*Str)
		if !a.IsConc() || !b.IsConc() {
			it.unsupported("native string function on symbolic strings")
		}
		return it.ts.Const(64, uint64(int64(f(a.conc, b.conc)))), stOK
	}
}

func nativeS(f func(a string) string) Intrinsic {
	return func(it *Interp, g *G, fr *Frame, args []Value, site ssa.Instruction) (Value, stepResult) {
		a := args[0].(*Str)
		if !a.IsConc() {
			it.unsupported("native string function on symbolic string")
		}
		return concStr(f(a.conc)), stOK
	}
}

func (it *Interp) indexByte(cells []*Term, c *Term) Value {
	ts := it.ts
	res := ts.Const(64, ^uint64(0))
	for i := len(cells) - 1; i >= 0; i-- {
		res = ts.Ite(ts.Eq(cells[i], c), ts.Const(64, uint64(i)), res)
	}
	return res
}

func (it *Interp) bytesEq(a, b Value) *Term {
	cells := func(v Value) []*Term {
		switch x := v.(type) {
		case *Slice:
			if isNilValue(x) {
				return nil
			}
			out := make([]*Term, x.len)
			for i := range out {
				out[i] = x.obj.get(x.off + i).(*Term)
			}
			return out
		case *Str:
			return it.strCells(x)
		}
		return nil
	}
	ac, bc := cells(a), cells(b)
	if len(ac) != len(bc) {
		return it.ts.ff
	}
	r := it.ts.tt
	for i := range ac {
		r = it.ts.And(r, it.ts.Eq(ac[i], bc[i]))
	}
	return r
}

// ---- fmt ----

// fmtArgs calls String()/Error() on operands whose type is defined in the repo
// (so that panics inside them are observed) for verbs that would invoke them.
func (it *Interp) fmtOperands(g *G, format string, hasFormat bool, argv Value) bool {
	sl, _ := argv.(*Slice)
	if isNilValue(sl) {
		return true
	}
	var verbs []byte
	if hasFormat {
		for i := 0; i < len(format); i++ {
			if format[i] != '%' {
				continue
			}
			i++
			sharp := false
			for i < len(format) && strings.IndexByte("+-# 0123456789.*[]", format[i]) >= 0 {
				if format[i] == '#' {
					sharp = true
				}
				if format[i] == '*' {
					verbs = append(verbs, '*')
				}
				i++
			}
			if i < len(format) {
				if format[i] == '%' {
					continue
				}
				v := format[i]
				if sharp && v == 'v' {
					v = 'G'
				}
				verbs = append(verbs, v)
			}
		}
	}
	for i := 0; i < sl.len; i++ {
		verb := byte('v')
		if hasFormat {
			if i < len(verbs) {
				verb = verbs[i]
			} else {
				verb = 0
			}
		}
		if verb != 'v' && verb != 's' && verb != 'q' {
			continue
		}
		iv, _ := sl.obj.get(sl.off + i).(*Iface)
		if isNilValue(iv) {
			continue
		}
		if _, isR := iv.val.(*RType); isR {
			continue
		}
		if !it.fmtCallStringer(g, iv, 0) {
			return false
		}
	}
	return true
}

func (it *Interp) fmtCallStringer(g *G, iv *Iface, depth int) bool {
	var m *ssa.Function
	for _, name := range []string{"Error", "String"} {
		sel := it.prog.MethodSets.MethodSet(iv.typ).Lookup(nil, name)
		if sel == nil {
			continue
		}
		fn := it.prog.MethodValue(sel)
		if fn == nil {
			continue
		}
		sig := fn.Signature
		if sig.Params().Len() != 0 || sig.Results().Len() != 1 || !isString(sig.Results().At(0).Type()) {
			continue
		}
		m = fn
		break
	}
	if m == nil {
		return true
	}
	// only methods defined in the repository (or harness) are executed
	pkg := m.Pkg
	if pkg == nil && m.Object() != nil && m.Object().Pkg() != nil {
		pkg = it.prog.Package(m.Object().Pkg())
	}
	if pkg == nil || !isRepoPkg(pkg.Pkg.Path()) {
		return true
	}
	if p, ok := iv.val.(*Ptr); ok && isNilValue(p) {
		// fmt catches nil-receiver panics and prints <nil>
		return true
	}
	it.fmtDepth++
	defer func() { it.fmtDepth-- }()
	if it.fmtDepth > 64 {
		it.unsupported("fmt recursion too deep")
	}
	_, ok := it.callSync(g, &FuncV{fn: m}, []Value{iv.val})
	if !ok {
		// fmt recovers panics from String methods of nil receivers only; a panic
		// in String() otherwise propagates ("%!v(PANIC=...)" is printed for
		// non-nil receivers as well in real fmt).  Real fmt *recovers* all such
		// panics and prints PANIC=; so the process does not crash.  We record it.
		it.fmtPanics++
		if g.panic != nil {
			it.fmtPanicDesc = append(it.fmtPanicDesc, g.panic.desc)
		}
		// emulate fmt's catchPanic: swallow, unless the value is a nil pointer (handled above)
		g.panic = nil
		if len(g.frames) > 0 {
			it.top(g).unwinding = false
		}
		return true
	}
	return true
}

func intrSprintf(it *Interp, g *G, fr *Frame, args []Value, site ssa.Instruction) (Value, stepResult) {
	f := args[0].(*Str)
	it.fmtOperands(g, f.conc, f.IsConc(), args[1])
	return concStr("‹" + f.conc + "›"), stOK
}

func intrSprint(it *Interp, g *G, fr *Frame, args []Value, site ssa.Instruction) (Value, stepResult) {
	it.fmtOperands(g, "", false, args[0])
	return concStr("‹sprint›"), stOK
}

func (it *Interp) newError(msg string) *Iface {
	o := it.newObj(1, "error")
	o.cells[0] = concStr(msg)
	return &Iface{typ: it.errStringT, val: &Ptr{obj: o}}
}

func intrErrorf(it *Interp, g *G, fr *Frame, args []Value, site ssa.Instruction) (Value, stepResult) {
	f := args[0].(*Str)
	it.fmtOperands(g, f.conc, f.IsConc(), args[1])
	return it.newError("‹" + f.conc + "›"), stOK
}

func intrFprintf(it *Interp, g *G, fr *Frame, args []Value, site ssa.Instruction) (Value, stepResult) {
	f := args[1].(*Str)
	it.fmtOperands(g, f.conc, f.IsConc(), args[2])
	return Tuple{it.ts.Const(64, 0), (*Iface)(nil)}, stOK
}

func intrFprint(it *Interp, g *G, fr *Frame, args []Value, site ssa.Instruction) (Value, stepResult) {
	it.fmtOperands(g, "", false, args[1])
	return Tuple{it.ts.Const(64, 0), (*Iface)(nil)}, stOK
}

// ---- sync ----

func mutexKey(p *Ptr) string { return fmt.Sprintf("mu%d+%d", p.obj.id, p.off) }

func (it *Interp) wakeTag(tag string) {
	for _, g := range it.gs {
		if g.status == gBlocked && g.waitTag == tag {
			g.status = gRunnable
			g.waitFn = nil
		}
	}
}

func intrMutexLock(it *Interp, g *G, fr *Frame, args []Value, site ssa.Instruction) (Value, stepResult) {
	p := args[0].(*Ptr)
	if isNilValue(p) {
		it.pendingPanic = "nil pointer dereference (Mutex.Lock)"
		return nil, stOK
	}
	st := p.obj.get(p.off).(*Term)
	if st.Val == 0 {
		it.set(p.obj, p.off, it.ts.Const(32, 1))
		it.mutexOwner()[mutexKey(p)] = g.id
		it.visible(g)
		return nil, stOK
	}
	return nil, it.block(g, mutexKey(p))
}

func intrMutexTryLock(it *Interp, g *G, fr *Frame, args []Value, site ssa.Instruction) (Value, stepResult) {
	p := args[0].(*Ptr)
	st := p.obj.get(p.off).(*Term)
	if st.Val == 0 {
		it.set(p.obj, p.off, it.ts.Const(32, 1))
		it.mutexOwner()[mutexKey(p)] = g.id
		return it.ts.tt, stOK
	}
	return it.ts.ff, stOK
}

func intrMutexUnlock(it *Interp, g *G, fr *Frame, args []Value, site ssa.Instruction) (Value, stepResult) {
	p := args[0].(*Ptr)
	st := p.obj.get(p.off).(*Term)
	if st.Val == 0 {
		it.fatal("sync: unlock of unlocked mutex")
	}
	it.set(p.obj, p.off, it.ts.Const(32, 0))
	delete(it.mutexOwner(), mutexKey(p))
	it.wakeTag(mutexKey(p))
	it.visible(g)
	return nil, stOK
}

// RWMutex: slot 0 = writer held, slot 4 = reader count, slot 2 = writers waiting.
// Like the runtime's, a waiting writer blocks new readers (writer preference).
func intrRWLock(it *Interp, g *G, fr *Frame, args []Value, site ssa.Instruction) (Value, stepResult) {
	p := args[0].(*Ptr)
	wr := p.obj.get(p.off).(*Term)
	rd := p.obj.get(p.off + 4).(*Term)
	pend := p.obj.get(p.off + 2).(*Term)
	registered := fr.resume != nil
	if wr.Val == 0 && rd.Val == 0 {
		if registered {
			fr.resume = nil
			it.set(p.obj, p.off+2, it.ts.Const(32, pend.Val-1))
		}
		it.set(p.obj, p.off, it.ts.Const(32, 1))
		it.mutexOwner()[mutexKey(p)] = g.id
		it.visible(g)
		return nil, stOK
	}
	if !registered {
		fr.resume = &waiter{g: g}
		it.set(p.obj, p.off+2, it.ts.Const(32, pend.Val+1))
	}
	return nil, it.block(g, mutexKey(p))
}

func intrRWUnlock(it *Interp, g *G, fr *Frame, args []Value, site ssa.Instruction) (Value, stepResult) {
	p := args[0].(*Ptr)
	if p.obj.get(p.off).(*Term).Val == 0 {
		it.fatal("sync: Unlock of unlocked RWMutex")
	}
	it.set(p.obj, p.off, it.ts.Const(32, 0))
	delete(it.mutexOwner(), mutexKey(p))
	it.wakeTag(mutexKey(p))
	it.visible(g)
	return nil, stOK
}

func intrRWRLock(it *Interp, g *G, fr *Frame, args []Value, site ssa.Instruction) (Value, stepResult) {
	p := args[0].(*Ptr)
	wr := p.obj.get(p.off).(*Term)
	rd := p.obj.get(p.off + 4).(*Term)
	pend := p.obj.get(p.off + 2).(*Term)
	if wr.Val == 0 && pend.Val == 0 {
		it.set(p.obj, p.off+4, it.ts.Const(32, rd.Val+1))
		it.visible(g)
		return nil, stOK
	}
	return nil, it.block(g, mutexKey(p))
}

func intrRWRUnlock(it *Interp, g *G, fr *Frame, args []Value, site ssa.Instruction) (Value, stepResult) {
	p := args[0].(*Ptr)
	rd := p.obj.get(p.off + 4).(*Term)
	if rd.Val == 0 {
		it.fatal("sync: RUnlock of unlocked RWMutex")
	}
	it.set(p.obj, p.off+4, it.ts.Const(32, rd.Val-1))
	it.wakeTag(mutexKey(p))
	it.visible(g)
	return nil, stOK
}

func (it *Interp) mutexOwner() map[string]int {
	if it.muOwner == nil {
		it.muOwner = map[string]int{}
	}
	return it.muOwner
}

// fatal models an unrecoverable runtime fatal error (process abort).
func (it *Interp) fatal(msg string) {
	it.crash = &panicState{desc: "fatal error: " + msg}
	it.crashG = it.cur
	panic(pathCrash{})
}

type pathCrash struct{}

func intrOnceDo(it *Interp, g *G, fr *Frame, args []Value, site ssa.Instruction) (Value, stepResult) {
	p := args[0].(*Ptr)
	done := p.obj.get(p.off).(*Term)
	if done.Val != 0 {
		return nil, stOK
	}
	it.set(p.obj, p.off, it.ts.Const(32, 1))
	fv := args[1].(*FuncV)
	if _, ok := it.callSync(g, fv, nil); !ok {
		return nil, stOK // panic propagates
	}
	return nil, stOK
}

func intrPoolGet(it *Interp, g *G, fr *Frame, args []Value, site ssa.Instruction) (Value, stepResult) {
	p := args[0].(*Ptr)
	pv, _ := p.obj.get(p.off).(*PoolV)
	if pv != nil && len(pv.items) > 0 {
		take := true
		if it.poolMayDrop {
			take = it.choose(2, "sync.Pool drop") == 0
		}
		n := len(pv.items)
		v := pv.items[n-1]
		it.set(p.obj, p.off, &PoolV{items: append([]Value(nil), pv.items[:n-1]...)})
		if take {
			it.poolHits++
			return v, stOK
		}
	}
	nf, _ := p.obj.get(p.off + 4).(*FuncV)
	if !isNilValue(nf) {
		r, ok := it.callSync(g, nf, nil)
		if !ok {
			return nil, stOK
		}
		return r, stOK
	}
	return (*Iface)(nil), stOK
}

func intrPoolPut(it *Interp, g *G, fr *Frame, args []Value, site ssa.Instruction) (Value, stepResult) {
	p := args[0].(*Ptr)
	x, _ := args[1].(*Iface)
	if isNilValue(x) {
		return nil, stOK
	}
	pv, _ := p.obj.get(p.off).(*PoolV)
	var items []Value
	if pv != nil {
		items = append(items, pv.items...)
	}
	items = append(items, x)
	it.set(p.obj, p.off, &PoolV{items: items})
	return nil, stOK
}

func intrWGAdd(it *Interp, g *G, fr *Frame, args []Value, site ssa.Instruction) (Value, stepResult) {
	p := args[0].(*Ptr)
	cur := p.obj.get(p.off).(*Term)
	d := args[1].(*Term)
	nv := it.ts.Bin(OpBvAdd, cur, it.ts.Resize(d, cur.W, true))
	it.set(p.obj, p.off, nv)
	if nv.IsConst() && nv.Val == 0 {
		it.wakeTag("wg" + mutexKey(p))
	}
	return nil, stOK
}

func intrWGDone(it *Interp, g *G, fr *Frame, args []Value, site ssa.Instruction) (Value, stepResult) {
	return intrWGAdd(it, g, fr, []Value{args[0], it.ts.Const(64, ^uint64(0))}, site)
}

func intrWGWait(it *Interp, g *G, fr *Frame, args []Value, site ssa.Instruction) (Value, stepResult) {
	p := args[0].(*Ptr)
	cur := p.obj.get(p.off).(*Term)
	if cur.IsConst() && cur.Val == 0 {
		return nil, stOK
	}
	return nil, it.block(g, "wg"+mutexKey(p))
}

// ---- package initialisation ----

var stdInitAllow = map[string]bool{
	"errors": true, "io": true, "bytes": true, "bufio": true, "context": true, "unicode/utf8": true,
	"container/heap": true, "encoding/binary": true, "sort": true, "internal/oserror": true, "io/fs": false,
}

func (w *World) initAllowed(path string) bool {
	if stdInitAllow[path] {
		return true
	}
	if isRepoPkg(path) {
		return true
	}
	return false
}

func (w *World) runInits(ex *Explorer) error {
	w.inPath = false
	it := &Interp{World: w, ex: ex, pcSet: map[*Term]bool{}, known: map[string]bool{}}
	var failure error
	func() {
		defer func() {
			if r := recover(); r != nil {
				if pa, ok := r.(pathAbort); ok {
					failure = fmt.Errorf("package initialisation failed: %s", pa.msg)
				} else {
					failure = fmt.Errorf("package initialisation: engine panic: %v", r)
				}
			}
		}()
		roots := w.cfg.InitPkgs
		order := w.P.initOrder(roots, func(path string) bool { return w.initAllowed(path) })
		for _, path := range order {
			if w.initDone[path] {
				continue
			}
			w.initDone[path] = true
			pkg := w.P.pkgs[path]
			if pkg == nil {
				continue
			}
			initFn := pkg.Func("init")
			if initFn == nil || initFn.Blocks == nil {
				continue
			}
			g := &G{id: 0, status: gRunnable, isMain: true, name: "init " + path}
			it.gs = []*G{g}
			it.cur = g
			it.initMode = true
			it.pushFrame(g, initFn, nil, nil, nil)
			it.schedule()
			if it.crash != nil {
				failure = fmt.Errorf("package %s initialisation panicked: %s", path, it.crash.desc)
				return
			}
		}
	}()
	w.ts.subst = map[*Term]*Term{}
	return failure
}

// ---- errors.Is / errors.As (the real ones go through internal/reflectlite) ----

func (it *Interp) dynMethod(iv *Iface, name string) *ssa.Function {
	if isNilValue(iv) {
		return nil
	}
	sel := it.prog.MethodSets.MethodSet(iv.typ).Lookup(nil, name)
	if sel == nil {
		return nil
	}
	return it.prog.MethodValue(sel)
}

// errUnwrap returns the errors directly wrapped by iv (Unwrap() error or Unwrap() []error).
func (it *Interp) errUnwrap(g *G, iv *Iface) ([]*Iface, bool) {
	fn := it.dynMethod(iv, "Unwrap")
	if fn == nil || fn.Signature.Params().Len() != 0 || fn.Signature.Results().Len() != 1 {
		return nil, true
	}
	r, ok := it.callSync(g, &FuncV{fn: fn}, []Value{iv.val})
	if !ok {
		return nil, false
	}
	switch x := r.(type) {
	case *Iface:
		if isNilValue(x) {
			return nil, true
		}
		return []*Iface{x}, true
	case *Slice:
		var out []*Iface
		if !isNilValue(x) {
			for i := 0; i < x.len; i++ {
				if e, _ := x.obj.get(x.off + i*x.esz).(*Iface); !isNilValue(e) {
					out = append(out, e)
				}
			}
		}
		return out, true
	}
	return nil, true
}

func (it *Interp) errorsIs(g *G, err, target *Iface, depth int) (bool, bool) {
	if depth > 32 {
		it.unsupported("errors.Is: chain deeper than 32")
	}
	if isNilValue(err) || isNilValue(target) {
		return isNilValue(err) && isNilValue(target), true
	}
	errT := types.Universe.Lookup("error").Type()
	if types.Comparable(target.typ) && types.Identical(err.typ, target.typ) {
		if it.decide(it.equalTerm(err, target, errT, errT), "errors.Is: equal") {
			return true, true
		}
	}
	if fn := it.dynMethod(err, "Is"); fn != nil && fn.Signature.Params().Len() == 1 && fn.Signature.Results().Len() == 1 {
		r, ok := it.callSync(g, &FuncV{fn: fn}, []Value{err.val, target})
		if !ok {
			return false, false
		}
		if t, isT := r.(*Term); isT && it.decide(t, "errors.Is: Is method") {
			return true, true
		}
	}
	inner, ok := it.errUnwrap(g, err)
	if !ok {
		return false, false
	}
	for _, e := range inner {
		r, ok := it.errorsIs(g, e, target, depth+1)
		if !ok {
			return false, false
		}
		if r {
			return true, true
		}
	}
	return false, true
}

func intrErrorsIs(it *Interp, g *G, fr *Frame, args []Value, site ssa.Instruction) (Value, stepResult) {
	e, _ := args[0].(*Iface)
	t, _ := args[1].(*Iface)
	r, ok := it.errorsIs(g, e, t, 0)
	if !ok {
		return nil, stOK
	}
	return it.ts.Bool(r), stOK
}

func (it *Interp) errorsAs(g *G, err *Iface, target *Ptr, tt types.Type, tiv *Iface, depth int) (bool, bool) {
	if depth > 32 {
		it.unsupported("errors.As: chain deeper than 32")
	}
	if isNilValue(err) {
		return false, true
	}
	match := false
	if ti, isI := tt.Underlying().(*types.Interface); isI {
		match = it.implements(err.typ, ti)
	} else {
		match = types.Identical(err.typ, tt)
	}
	if match {
		if _, isI := tt.Underlying().(*types.Interface); isI {
			it.store(target.obj, target.off, tt, err)
		} else {
			it.store(target.obj, target.off, tt, err.val)
		}
		return true, true
	}
	if fn := it.dynMethod(err, "As"); fn != nil && fn.Signature.Params().Len() == 1 && fn.Signature.Results().Len() == 1 {
		r, ok := it.callSync(g, &FuncV{fn: fn}, []Value{err.val, tiv})
		if !ok {
			return false, false
		}
		if t, isT := r.(*Term); isT && it.decide(t, "errors.As: As method") {
			return true, true
		}
	}
	inner, ok := it.errUnwrap(g, err)
	if !ok {
		return false, false
	}
	for _, e := range inner {
		r, ok := it.errorsAs(g, e, target, tt, tiv, depth+1)
		if !ok {
			return false, false
		}
		if r {
			return true, true
		}
	}
	return false, true
}

func intrErrorsAs(it *Interp, g *G, fr *Frame, args []Value, site ssa.Instruction) (Value, stepResult) {
	e, _ := args[0].(*Iface)
	tiv, _ := args[1].(*Iface)
	if isNilValue(tiv) {
		return nil, it.goPanic(g, "errors: target cannot be nil")
	}
	pt, isPtr := tiv.typ.Underlying().(*types.Pointer)
	p, _ := tiv.val.(*Ptr)
	if !isPtr || isNilValue(p) {
		return nil, it.goPanic(g, "errors: target must be a non-nil pointer")
	}
	r, ok := it.errorsAs(g, e, p, pt.Elem(), tiv, 0)
	if !ok {
		return nil, stOK
	}
	return it.ts.Bool(r), stOK
}
