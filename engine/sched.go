package main

// Goroutine scheduler, channels, select, timers.

import (
	"fmt"
	"go/types"
	"sort"

	"golang.org/x/tools/go/ssa"
)

type waiter struct {
	g        *G
	ch       *ChanObj
	isSend   bool
	val      Value
	ok       bool
	done     bool
	closedTx bool // send waiter woken by close
	sel      *selGroup
	caseIdx  int
}

type selGroup struct {
	fired   *waiter
	waiters []*waiter
}

type chanQ struct {
	recvq []*waiter
	sendq []*waiter
}

type timer struct {
	deadline int64
	ch       *ChanObj
	g        *G // for Sleep
	fired    bool
	stopped  bool
	id       int
}

func (it *Interp) q(c *ChanObj) *chanQ {
	if c.q == nil {
		c.q = &chanQ{}
		if c.pre {
			it.preChans = append(it.preChans, c)
		}
	}
	return c.q
}

func (w *World) resetPreChans() {
	for _, c := range w.preChans {
		c.q = nil
	}
	w.preChans = w.preChans[:0]
}

func (it *Interp) newChan(n int, et types.Type) *ChanObj {
	it.nextObj++
	return &ChanObj{id: it.nextObj, cap: n, elemT: et, pre: !it.inPath}
}

func (w *waiter) stale() bool { return w.done || (w.sel != nil && w.sel.fired != nil) }

func (w *waiter) fire() {
	w.done = true
	if w.sel != nil {
		w.sel.fired = w
	}
	w.g.status = gRunnable
}

func popLive(q *[]*waiter) *waiter {
	for len(*q) > 0 {
		w := (*q)[0]
		*q = (*q)[1:]
		if !w.stale() {
			return w
		}
	}
	return nil
}

func hasLive(q []*waiter, self *G) bool {
	for _, w := range q {
		if !w.stale() && w.g != self {
			return true
		}
	}
	return false
}

func (it *Interp) block(g *G, tag string) stepResult {
	g.status = gBlocked
	g.waitTag = tag
	return stBlocked
}

// trySend performs a send if it can complete now.
func (it *Interp) trySend(g *G, c *ChanObj, v Value) (done bool, panicMsg string) {
	if c.closed {
		return true, "send on closed channel"
	}
	q := it.q(c)
	if r := popLive(&q.recvq); r != nil {
		r.val, r.ok = v, true
		r.fire()
		return true, ""
	}
	if len(c.buf) < c.cap {
		it.chanLogUndo(c)
		c.buf = append(append([]Value(nil), c.buf...), v)
		return true, ""
	}
	return false, ""
}

func (it *Interp) tryRecv(g *G, c *ChanObj) (v Value, ok bool, done bool) {
	q := it.q(c)
	if len(c.buf) > 0 {
		it.chanLogUndo(c)
		v = c.buf[0]
		c.buf = append([]Value(nil), c.buf[1:]...)
		if s := popLive(&q.sendq); s != nil {
			c.buf = append(c.buf, s.val)
			s.fire()
		}
		return v, true, true
	}
	if s := popLive(&q.sendq); s != nil {
		s.fire()
		return s.val, true, true
	}
	if c.closed {
		return it.zero(c.elemT), false, true
	}
	return nil, false, false
}

func (it *Interp) chanSend(g *G, fr *Frame, chv Value, v Value) stepResult {
	if w := fr.resume; w != nil {
		if !w.done {
			return it.block(g, "chan send")
		}
		fr.resume = nil
		if w.closedTx {
			return it.goPanic(g, "send on closed channel")
		}
		it.visible(g)
		return stOK
	}
	ch, _ := chv.(*ChanV)
	if isNilValue(ch) {
		return it.block(g, "send on nil channel")
	}
	done, pmsg := it.trySend(g, ch.c, v)
	if pmsg != "" {
		return it.goPanic(g, pmsg)
	}
	if done {
		it.visible(g)
		return stOK
	}
	w := &waiter{g: g, ch: ch.c, isSend: true, val: v}
	q := it.q(ch.c)
	q.sendq = append(q.sendq, w)
	fr.resume = w
	return it.block(g, "chan send")
}

func (it *Interp) chanRecv(g *G, fr *Frame, chv Value, t types.Type) (Value, bool, stepResult) {
	if w := fr.resume; w != nil {
		if !w.done {
			return nil, false, it.block(g, "chan recv")
		}
		fr.resume = nil
		it.visible(g)
		return w.val, w.ok, stOK
	}
	ch, _ := chv.(*ChanV)
	if isNilValue(ch) {
		return nil, false, it.block(g, "recv on nil channel")
	}
	v, ok, done := it.tryRecv(g, ch.c)
	if done {
		it.visible(g)
		return v, ok, stOK
	}
	w := &waiter{g: g, ch: ch.c}
	q := it.q(ch.c)
	q.recvq = append(q.recvq, w)
	fr.resume = w
	return nil, false, it.block(g, "chan recv")
}

func (it *Interp) chanClose(c *ChanObj) {
	it.chanLogUndo(c)
	c.closed = true
	q := it.q(c)
	for {
		r := popLive(&q.recvq)
		if r == nil {
			break
		}
		r.val, r.ok = it.zero(c.elemT), false
		r.fire()
	}
	for {
		s := popLive(&q.sendq)
		if s == nil {
			break
		}
		s.closedTx = true
		s.fire()
	}
}

func (it *Interp) doSelect(g *G, fr *Frame, x *ssa.Select) stepResult {
	ts := it.ts
	mkResult := func(idx int, rv Value, rok bool) Value {
		tu := Tuple{ts.Const(64, uint64(int64(idx))), ts.Bool(rok)}
		for i, st := range x.States {
			if st.Dir == types.RecvOnly {
				et := st.Chan.Type().Underlying().(*types.Chan).Elem()
				if i == idx {
					tu = append(tu, rv)
				} else {
					tu = append(tu, it.zero(et))
				}
			}
		}
		return tu
	}
	if w := fr.resume; w != nil {
		grp := w.sel
		if grp.fired == nil {
			return it.block(g, "select")
		}
		f := grp.fired
		fr.resume = nil
		if f.closedTx {
			return it.goPanic(g, "send on closed channel")
		}
		it.setReg(fr, x, mkResult(f.caseIdx, f.val, f.ok))
		fr.pc++
		it.visible(g)
		return stOK
	}
	type cs struct {
		c    *ChanObj
		send bool
		v    Value
	}
	cases := make([]cs, len(x.States))
	var ready []int
	for i, st := range x.States {
		chv, _ := it.eval(fr, st.Chan).(*ChanV)
		if isNilValue(chv) {
			continue
		}
		c := chv.c
		cases[i].c = c
		q := it.q(c)
		if st.Dir == types.SendOnly {
			cases[i].send = true
			cases[i].v = it.eval(fr, st.Send)
			if c.closed || hasLive(q.recvq, g) || len(c.buf) < c.cap {
				ready = append(ready, i)
			}
		} else {
			if len(c.buf) > 0 || hasLive(q.sendq, g) || c.closed {
				ready = append(ready, i)
			}
		}
	}
	if len(ready) > 0 {
		i := ready[it.choose(len(ready), "select ready case")]
		if cases[i].send {
			_, pmsg := it.trySend(g, cases[i].c, cases[i].v)
			if pmsg != "" {
				return it.goPanic(g, pmsg)
			}
			it.setReg(fr, x, mkResult(i, nil, false))
		} else {
			v, ok, _ := it.tryRecv(g, cases[i].c)
			it.setReg(fr, x, mkResult(i, v, ok))
		}
		fr.pc++
		it.visible(g)
		return stOK
	}
	if !x.Blocking {
		it.setReg(fr, x, mkResult(-1, nil, false))
		fr.pc++
		return stOK
	}
	grp := &selGroup{}
	for i := range cases {
		if cases[i].c == nil {
			continue
		}
		w := &waiter{g: g, ch: cases[i].c, isSend: cases[i].send, val: cases[i].v, sel: grp, caseIdx: i}
		grp.waiters = append(grp.waiters, w)
		q := it.q(cases[i].c)
		if cases[i].send {
			q.sendq = append(q.sendq, w)
		} else {
			q.recvq = append(q.recvq, w)
		}
	}
	if len(grp.waiters) == 0 {
		return it.block(g, "select with no cases")
	}
	fr.resume = grp.waiters[0]
	return it.block(g, "select")
}

// visible marks a scheduling point after a visible operation.
func (it *Interp) visible(g *G) {
	it.yieldReq = true
}

// ---- the scheduler ----

func (it *Interp) runnable() []*G {
	var out []*G
	for _, g := range it.gs {
		if g.status == gRunnable {
			out = append(out, g)
		}
	}
	return out
}

func (it *Interp) wakeWaiting() bool {
	woke := false
	// lowest priority: quiescence waiters are only woken if nothing else can be
	var quiesce []*G
	for _, g := range it.gs {
		if g.status == gBlocked && g.waitFn != nil {
			if g.waitTag == "quiesce" {
				quiesce = append(quiesce, g)
				continue
			}
			if g.waitFn() {
				g.status = gRunnable
				g.waitFn = nil
				woke = true
			}
		}
	}
	if woke {
		return true
	}
	// library-side waiters first; the harness main goroutine only when nothing else is left
	for _, g := range quiesce {
		if !g.isMain {
			g.status = gRunnable
			g.waitFn = nil
			woke = true
		}
	}
	if woke {
		return true
	}
	for _, g := range quiesce {
		g.status = gRunnable
		g.waitFn = nil
		woke = true
	}
	return woke
}

func (it *Interp) schedule() {
	main := it.gs[0]
	cur := main
	for {
		if main.status == gDone {
			return
		}
		if it.crash != nil {
			return
		}
		run := it.runnable()
		if len(run) == 0 {
			if it.wakeWaiting() {
				continue
			}
			if it.autoAdvance && it.fireNextTimer() {
				continue
			}
			// deadlock: main cannot finish
			it.deadlock()
			return
		}
		// choose the next goroutine
		var next *G
		curRunnable := cur != nil && cur.status == gRunnable
		if !it.cfg.ExploreSched {
			if curRunnable {
				next = cur
			} else {
				next = run[0]
			}
		} else {
			if curRunnable {
				if it.preemptions < it.cfg.Preempt && len(run) > 1 {
					// alternatives: continue (0) or preempt to another
					others := make([]*G, 0, len(run))
					for _, g := range run {
						if g != cur {
							others = append(others, g)
						}
					}
					k := it.choose(len(others)+1, "preempt")
					if k == 0 {
						next = cur
					} else {
						next = others[k-1]
						it.preemptions++
					}
				} else {
					next = cur
				}
			} else {
				next = run[it.choose(len(run), "schedule")]
			}
		}
		cur = next
		it.cur = cur
		it.schedTrace = append(it.schedTrace, cur.id)
		// run until a scheduling point
		for {
			it.yieldReq = false
			st := it.step(cur)
			if st == stBlocked || st == stEnd || cur.status != gRunnable {
				break
			}
			if st == stYield || (it.yieldReq && it.cfg.ExploreSched) {
				break
			}
			if it.crash != nil {
				return
			}
		}
	}
}

func (it *Interp) deadlock() {
	var desc []string
	for _, g := range it.gs {
		if g.status == gBlocked {
			where := ""
			if len(g.frames) > 0 {
				where = it.top(g).fn.String()
			}
			desc = append(desc, fmt.Sprintf("g%d(%s) blocked on %s in %s", g.id, g.name, g.waitTag, where))
		}
	}
	sort.Strings(desc)
	it.abort(PathInconclusive, "DEADLOCK: harness main cannot proceed: %v", desc)
}

// fireNextTimer advances the logical clock to the earliest pending deadline.
func (it *Interp) fireNextTimer() bool {
	var best *timer
	for _, t := range it.timers {
		if t.fired || t.stopped {
			continue
		}
		if best == nil || t.deadline < best.deadline {
			best = t
		}
	}
	if best == nil {
		return false
	}
	if best.deadline > it.clock {
		it.clock = best.deadline
	}
	for _, t := range it.timers {
		if !t.fired && !t.stopped && t.deadline <= it.clock {
			t.fired = true
			it.timerFirings++
			if t.ch != nil {
				it.trySend(nil, t.ch, it.timeValue(it.clock))
			}
			if t.g != nil && t.g.status == gBlocked {
				t.g.status = gRunnable
				t.g.waitFn = nil
			}
		}
	}
	return true
}

const clockBase = int64(1_700_000_000) // logical epoch (unix seconds)

// timeValue builds a time.Time (wall, ext, loc) for logical instant ns.
func (it *Interp) timeValue(ns int64) Value {
	// ext holds seconds since year 1 when the monotonic bit is clear; wall holds nsec
	const unixToInternal = int64((1969*365 + 1969/4 - 1969/100 + 1969/400) * 86400)
	sec := clockBase + ns/1e9 + unixToInternal
	nsec := ns % 1e9
	return Agg{it.ts.Const(64, uint64(nsec)), it.ts.Const(64, uint64(sec)), (*Ptr)(nil)}
}
