package main

// Harness intrinsics (the v* functions declared body-less in harness files)
// and the abstract dictionary.

import (
	"fmt"
	"go/types"

	"golang.org/x/tools/go/ssa"
)

type dictLookup struct {
	name              string // by-name lookups (code and vendor are then the definition's, symbolic)
	app, code, vendor *Term
	ty                *Term // 8-bit: 0..18 TypeID, 255 undefined
	found             *Term // for commands (bool)
	nreq, nans        *Term
	res               Value
}

func (it *Interp) freshInput(tag, kind string, w uint8) *Term {
	name := fmt.Sprintf("v%d_%s_w%d", it.nvars, tag, w)
	it.nvars++
	t := it.ts.Var(w, name)
	it.inputs = append(it.inputs, &InputVar{Tag: tag, Kind: kind, W: w, Term: t, Name: name})
	return t
}

func strArg(it *Interp, v Value) string {
	s, ok := v.(*Str)
	if !ok || !s.IsConc() {
		it.unsupported("harness intrinsic needs a constant string argument")
	}
	return s.conc
}

func constArg(it *Interp, v Value) int64 {
	t, ok := v.(*Term)
	if !ok || !t.IsConst() {
		it.unsupported("harness intrinsic needs a constant integer argument")
	}
	return sext64(t.Val, t.W)
}

func init() {
	mkU := func(w uint8, kind string) Intrinsic {
		return func(it *Interp, g *G, fr *Frame, args []Value, site ssa.Instruction) (Value, stepResult) {
			return it.freshInput(strArg(it, args[0]), kind, w), stOK
		}
	}
	reg("harness.vU8", mkU(8, "u8"))
	reg("harness.vU16", mkU(16, "u16"))
	reg("harness.vU32", mkU(32, "u32"))
	reg("harness.vU64", mkU(64, "u64"))
	reg("harness.vBool", func(it *Interp, g *G, fr *Frame, args []Value, site ssa.Instruction) (Value, stepResult) {
		t := it.freshInput(strArg(it, args[0]), "bool", 8)
		it.pc = append(it.pc, it.ts.Ule(t, it.ts.Const(8, 1)))
		return it.ts.Eq(t, it.ts.Const(8, 1)), stOK
	})
	// vLen(tag, lo, hi): bounded integer, case-split by the executor (structure is enumerated, no solver)
	reg("harness.vLen", func(it *Interp, g *G, fr *Frame, args []Value, site ssa.Instruction) (Value, stepResult) {
		lo, hi := constArg(it, args[1]), constArg(it, args[2])
		if hi < lo {
			it.abort(PathPruned, "empty vLen range")
		}
		v := uint64(lo) + uint64(it.choose(int(hi-lo)+1, "vLen "+strArg(it, args[0])))
		it.inputs = append(it.inputs, &InputVar{Tag: strArg(it, args[0]), Kind: "len", W: 64, Conc: true, Value: v})
		return it.ts.Const(64, v), stOK
	})
	// vInt(tag, lo, hi): bounded integer that stays symbolic
	reg("harness.vInt", func(it *Interp, g *G, fr *Frame, args []Value, site ssa.Instruction) (Value, stepResult) {
		lo, hi := constArg(it, args[1]), constArg(it, args[2])
		t := it.freshInput(strArg(it, args[0]), "int", 64)
		it.pc = append(it.pc, it.ts.And(it.ts.Ule(it.ts.Const(64, uint64(lo)), t), it.ts.Ule(t, it.ts.Const(64, uint64(hi)))))
		return t, stOK
	})
	reg("harness.vChoice", func(it *Interp, g *G, fr *Frame, args []Value, site ssa.Instruction) (Value, stepResult) {
		n := constArg(it, args[1])
		if n <= 0 {
			it.abort(PathPruned, "empty vChoice range")
		}
		v := uint64(it.choose(int(n), "vChoice "+strArg(it, args[0])))
		it.inputs = append(it.inputs, &InputVar{Tag: strArg(it, args[0]), Kind: "choice", W: 64, Conc: true, Value: v})
		return it.ts.Const(64, v), stOK
	})
	// vPick32(tag, values...): a symbolic value constrained to the given set; no case split
	reg("harness.vPick32", func(it *Interp, g *G, fr *Frame, args []Value, site ssa.Instruction) (Value, stepResult) {
		sl, _ := args[1].(*Slice)
		if isNilValue(sl) || sl.len == 0 {
			it.unsupported("vPick32 without values")
		}
		t := it.freshInput(strArg(it, args[0]), "u32", 32)
		c := it.ts.ff
		for i := 0; i < sl.len; i++ {
			c = it.ts.Or(c, it.ts.Eq(t, sl.obj.get(sl.off+i).(*Term)))
		}
		it.pc = append(it.pc, c)
		return t, stOK
	})
	reg("harness.vBytes", func(it *Interp, g *G, fr *Frame, args []Value, site ssa.Instruction) (Value, stepResult) {
		tag := strArg(it, args[0])
		n := int(constArg(it, args[1]))
		o := it.newObj(n, "vBytes "+tag)
		for i := 0; i < n; i++ {
			o.cells[i] = it.freshInput(fmt.Sprintf("%s[%d]", tag, i), "u8", 8)
		}
		return &Slice{obj: o, len: n, cap: n, esz: 1}, stOK
	})
	reg("harness.vAssume", func(it *Interp, g *G, fr *Frame, args []Value, site ssa.Instruction) (Value, stepResult) {
		it.assume(args[0].(*Term))
		return nil, stOK
	})
	reg("harness.vAssert", func(it *Interp, g *G, fr *Frame, args []Value, site ssa.Instruction) (Value, stepResult) {
		it.assertHolds(args[0].(*Term), strArg(it, args[1]))
		return nil, stOK
	})
	reg("harness.vNoPanic", func(it *Interp, g *G, fr *Frame, args []Value, site ssa.Instruction) (Value, stepResult) {
		it.noPanic = true
		return nil, stOK
	})
	reg("harness.vReach", func(it *Interp, g *G, fr *Frame, args []Value, site ssa.Instruction) (Value, stepResult) {
		it.reach = append(it.reach, strArg(it, args[0]))
		return nil, stOK
	})
	// vObserve(tag, v) / vObserveBytes(tag, b): values recorded for the translator self-test: on sample
	// paths the engine evaluates them under the path's model and the native build must produce the same
	reg("harness.vObserve", func(it *Interp, g *G, fr *Frame, args []Value, site ssa.Instruction) (Value, stepResult) {
		t := args[1].(*Term)
		if t.W == 0 {
			t = it.ts.Ite(t, it.ts.Const(64, 1), it.ts.Const(64, 0))
		} else if t.W < 64 {
			t = it.ts.Zext(t, 64)
		}
		it.obs = append(it.obs, obsRec{tag: strArg(it, args[0]), terms: []*Term{t}})
		return nil, stOK
	})
	reg("harness.vObserveBytes", func(it *Interp, g *G, fr *Frame, args []Value, site ssa.Instruction) (Value, stepResult) {
		sl, _ := args[1].(*Slice)
		rec := obsRec{tag: strArg(it, args[0]), terms: []*Term{}}
		if !isNilValue(sl) {
			for i := 0; i < sl.len; i++ {
				rec.terms = append(rec.terms, it.ts.Zext(sl.obj.get(sl.off+i).(*Term), 64))
			}
		}
		it.obs = append(it.obs, rec)
		return nil, stOK
	})
	reg("harness.vLog", func(it *Interp, g *G, fr *Frame, args []Value, site ssa.Instruction) (Value, stepResult) {
		return nil, stOK
	})
	// vKnown(id, cond): forks on cond; on the true side violations are attributed to finding id.
	reg("harness.vKnown", func(it *Interp, g *G, fr *Frame, args []Value, site ssa.Instruction) (Value, stepResult) {
		id := strArg(it, args[0])
		if !it.ex.knownActive(id) {
			return it.ts.ff, stOK
		}
		if it.decide(args[1].(*Term), "known-finding region "+id) {
			it.known[id] = true
			return it.ts.tt, stOK
		}
		return it.ts.ff, stOK
	})
	reg("harness.vParam", func(it *Interp, g *G, fr *Frame, args []Value, site ssa.Instruction) (Value, stepResult) {
		name := strArg(it, args[0])
		if v, ok := it.cfg.Params[name]; ok {
			return it.ts.Const(64, uint64(v)), stOK
		}
		return args[1], stOK
	})
	reg("harness.vSymbolic", func(it *Interp, g *G, fr *Frame, args []Value, site ssa.Instruction) (Value, stepResult) {
		return it.ts.tt, stOK
	})
	reg("harness.vAllocCheck", retNone)
	reg("harness.vAllocBytes", func(it *Interp, g *G, fr *Frame, args []Value, site ssa.Instruction) (Value, stepResult) {
		return it.allocTotal(), stOK
	})
	reg("harness.vAllocLimit", func(it *Interp, g *G, fr *Frame, args []Value, site ssa.Instruction) (Value, stepResult) {
		it.allocLimit = args[0].(*Term)
		return nil, stOK
	})
	reg("harness.vMaxDepth", func(it *Interp, g *G, fr *Frame, args []Value, site ssa.Instruction) (Value, stepResult) {
		return it.ts.Const(64, uint64(it.maxDepth)), stOK
	})
	reg("harness.vFmtPanics", func(it *Interp, g *G, fr *Frame, args []Value, site ssa.Instruction) (Value, stepResult) {
		return it.ts.Const(64, uint64(it.fmtPanics)), stOK
	})
	reg("harness.vPoolMayDrop", func(it *Interp, g *G, fr *Frame, args []Value, site ssa.Instruction) (Value, stepResult) {
		it.poolMayDrop = args[0].(*Term).IsTrue()
		return nil, stOK
	})
	reg("harness.vAbstractDict", func(it *Interp, g *G, fr *Frame, args []Value, site ssa.Instruction) (Value, stepResult) {
		dp := it.P.pkgs[repoModule+"/diam/dict"]
		o := it.newTypedObj(dp.Type("Parser").Type(), "abstract dictionary")
		o.abstractDict = true
		return &Ptr{obj: o}, stOK
	})
	// scheduler-related
	// vJitter: no effect here (the scheduler already explores the interleavings); natively a random
	// sub-millisecond sleep that lets repeated replays reach different interleavings
	reg("harness.vJitter", func(it *Interp, g *G, fr *Frame, args []Value, site ssa.Instruction) (Value, stepResult) {
		return nil, stOK
	})
	reg("harness.vYield", func(it *Interp, g *G, fr *Frame, args []Value, site ssa.Instruction) (Value, stepResult) {
		it.visible(g)
		return nil, stYield
	})
	reg("harness.vQuiesce", func(it *Interp, g *G, fr *Frame, args []Value, site ssa.Instruction) (Value, stepResult) {
		if fr.resume != nil {
			fr.resume = nil
			return nil, stOK
		}
		others := false
		for _, og := range it.gs {
			if og != g && og.status == gRunnable {
				others = true
			}
		}
		if !others {
			// also give blocked-with-condition goroutines a chance
			pending := false
			for _, og := range it.gs {
				if og != g && og.status == gBlocked && og.waitFn != nil && og.waitTag != "quiesce" && og.waitFn() {
					pending = true
				}
				// a library-side goroutine itself waiting for quiescence goes first
				if og != g && g.isMain && og.status == gBlocked && og.waitTag == "quiesce" {
					pending = true
				}
			}
			if !pending {
				return nil, stOK
			}
		}
		fr.resume = &waiter{g: g}
		g.waitFn = func() bool { return true }
		return nil, it.block(g, "quiesce")
	})
	reg("harness.vAdvance", func(it *Interp, g *G, fr *Frame, args []Value, site ssa.Instruction) (Value, stepResult) {
		return it.ts.Bool(it.fireNextTimer()), stOK
	})
	reg("harness.vNow", func(it *Interp, g *G, fr *Frame, args []Value, site ssa.Instruction) (Value, stepResult) {
		return it.ts.Const(64, uint64(it.clock)), stOK
	})
	reg("harness.vAutoAdvance", func(it *Interp, g *G, fr *Frame, args []Value, site ssa.Instruction) (Value, stepResult) {
		it.autoAdvance = args[0].(*Term).IsTrue()
		return nil, stOK
	})
	reg("harness.vPendingTimers", func(it *Interp, g *G, fr *Frame, args []Value, site ssa.Instruction) (Value, stepResult) {
		n := 0
		for _, t := range it.timers {
			if !t.fired && !t.stopped {
				n++
			}
		}
		return it.ts.Const(64, uint64(n)), stOK
	})
	// vLeaks: number of goroutines started by library code that are still alive
	reg("harness.vLeaks", func(it *Interp, g *G, fr *Frame, args []Value, site ssa.Instruction) (Value, stepResult) {
		n := 0
		for _, og := range it.gs {
			if og != g && og.status != gDone && og.lib {
				n++
			}
		}
		return it.ts.Const(64, uint64(n)), stOK
	})
	reg("harness.vHeld", func(it *Interp, g *G, fr *Frame, args []Value, site ssa.Instruction) (Value, stepResult) {
		p := args[0].(*Ptr)
		st := p.obj.get(p.off).(*Term)
		return it.ts.Bool(st.Val != 0), stOK
	})
	reg("harness.vRecovered", func(it *Interp, g *G, fr *Frame, args []Value, site ssa.Instruction) (Value, stepResult) {
		return it.ts.Const(64, uint64(len(it.recovered))), stOK
	})
}

func (ex *Explorer) knownActive(id string) bool {
	if ex.knownIDs == nil {
		return false
	}
	return ex.knownIDs[id]
}

// ---- ghost allocation accounting ----

func (it *Interp) ghostAlloc(n int64) { it.ghostConc += n }

func (it *Interp) ghostAllocTerm(count *Term, elemSize int64) {
	ts := it.ts
	if count.IsConst() {
		it.ghostConc += int64(count.Val) * elemSize
		return
	}
	sz := ts.Bin(OpBvMul, count, ts.Const(64, uint64(elemSize)))
	if it.allocLimit != nil {
		// the code is about to allocate `sz` bytes: must stay within the harness's budget
		tot := ts.Bin(OpBvAdd, it.allocTotal(), sz)
		noOverflow := ts.Ule(count, ts.Const(64, 1<<40))
		it.assertHolds(ts.And(noOverflow, ts.Ule(tot, it.allocLimit)), "memory bounded by bytes supplied, not by claimed length")
	}
	it.ghostTerms = append(it.ghostTerms, sz)
}

func (it *Interp) allocTotal() *Term {
	t := it.ts.Const(64, uint64(it.ghostConc))
	for _, s := range it.ghostTerms {
		t = it.ts.Bin(OpBvAdd, t, s)
	}
	return t
}

// ---- abstract dictionary ----

func (it *Interp) isAbstractDict(v Value) bool {
	p, ok := v.(*Ptr)
	return ok && !isNilValue(p) && p.obj.abstractDict
}

const undefinedVendor = 4294967295

// abstractFindAVP models (*dict.Parser).FindAVPWithVendor for every dictionary at once:
// the answer for a key is a fresh symbolic data type (or "undefined"), functionally
// consistent across lookups on the same path (Ackermann constraints).
func (it *Interp) abstractFindAVP(g *G, appid *Term, code Value, vendor *Term, withVendor bool) Value {
	ts := it.ts
	civ, _ := code.(*Iface)
	if isNilValue(civ) {
		it.unsupported("abstract dictionary: nil code")
	}
	if nm, isName := civ.val.(*Str); isName {
		if !nm.IsConc() {
			it.unsupported("abstract dictionary: lookup by symbolic name")
		}
		return it.abstractFindByName(g, appid, nm.conc, vendor)
	}
	ct, ok := civ.val.(*Term)
	if !ok {
		it.unsupported("abstract dictionary: lookup by %s", civ.typ)
	}
	isU32 := false
	if b, ok := civ.typ.Underlying().(*types.Basic); ok && b.Kind() == types.Uint32 {
		isU32 = true
	}
	if ct.W != 32 {
		ct = ts.Extract(ct, 31, 0)
	}
	// the any-vendor wildcard as a lookup key couples keys in real dictionaries; outside the abstraction
	if withVendor {
		it.assume(ts.Not(ts.Eq(vendor, ts.Const(32, undefinedVendor))))
	}
	// a key that is syntactically the same as an earlier one gets the earlier answer's variable
	var ty *Term
	for _, l := range it.dictLookups {
		if l.name == "" && ts.Eq(l.app, appid).IsTrue() && ts.Eq(l.code, ct).IsTrue() && ts.Eq(l.vendor, vendor).IsTrue() {
			ty = l.ty
			break
		}
	}
	reused := ty != nil
	if !reused {
		ty = it.freshInput("dict.type", "dicttype", 8)
	}
	// a defined AVP carries one of the 18 named types of datatype.Available (UnknownType 0 is only
	// produced by the MakeUnknownAVP placeholder); 255 = undefined
	if !reused {
		cons := ts.Or(ts.And(ts.Ule(ts.Const(8, 1), ty), ts.Ule(ty, ts.Const(8, 18))), ts.Eq(ty, ts.Const(8, 255)))
		if mask := it.cfg.Params["dict_types"]; mask != 0 {
			// tier-dependent restriction of the dictionary answers to behaviour classes (stated in the bounds)
			allowed := ts.Eq(ty, ts.Const(8, 255))
			for k := 1; k <= 18; k++ {
				if mask&(1<<uint(k)) != 0 {
					allowed = ts.Or(allowed, ts.Eq(ty, ts.Const(8, uint64(k))))
				}
			}
			cons = ts.And(cons, allowed)
		}
		// functional consistency with every earlier lookup (one conjunction per lookup)
		for _, l := range it.dictLookups {
			same := ts.And(ts.Eq(l.app, appid), ts.And(ts.Eq(l.code, ct), ts.Eq(l.vendor, vendor)))
			if same.IsFalse() {
				continue
			}
			if l.name != "" {
				// by-name definitions constrain only when defined
				same = ts.And(same, ts.Not(ts.Eq(l.ty, ts.Const(8, 255))))
			}
			cons = ts.And(cons, ts.Implies(same, ts.Eq(l.ty, ty)))
		}
		it.pc = append(it.pc, cons)
	}
	lk := dictLookup{app: appid, code: ct, vendor: vendor, ty: ty}
	it.dictLookups = append(it.dictLookups, lk)
	dp := it.P.pkgs[repoModule+"/diam/dict"]
	if it.decide(ts.Eq(ty, ts.Const(8, 255)), "dictionary: code undefined") {
		if !isU32 {
			return Tuple{(*Ptr)(nil), it.newError("Could not find AVP")}
		}
		r, ok := it.callSync(g, &FuncV{fn: dp.Func("MakeUnknownAVP")}, []Value{appid, ct, vendor})
		if !ok {
			return nil
		}
		return Tuple{r, it.newError("Could not find AVP")}
	}
	o := it.mkAbstractAVP(appid, ct, vendor, ty, "Abstract-AVP")
	return Tuple{&Ptr{obj: o}, (*Iface)(nil)}
}

func (it *Interp) mkAbstractAVP(appid, ct, vendor, ty *Term, name string) *Obj {
	ts := it.ts
	dp := it.P.pkgs[repoModule+"/diam/dict"]
	avpT := dp.Type("AVP").Type()
	st := avpT.Underlying().(*types.Struct)
	o := it.newTypedObj(avpT, "abstract dict.AVP")
	for i := 0; i < st.NumFields(); i++ {
		off := it.fieldOff(st, i)
		switch st.Field(i).Name() {
		case "Name":
			o.cells[off] = concStr(name)
		case "Code":
			o.cells[off] = ct
		case "VendorID":
			o.cells[off] = vendor
		case "Must":
			o.cells[off] = concStr("M")
		case "Data":
			dst := st.Field(i).Type().Underlying().(*types.Struct)
			for j := 0; j < dst.NumFields(); j++ {
				doff := off + it.fieldOff(dst, j)
				switch dst.Field(j).Name() {
				case "Type":
					o.cells[doff] = ts.Zext(ty, 64)
				case "TypeName":
					o.cells[doff] = concStr("Abstract")
				}
			}
		case "App":
			appT := dp.Type("App").Type()
			ao := it.newTypedObj(appT, "abstract dict.App")
			ao.cells[0] = appid
			o.cells[off] = &Ptr{obj: ao}
		}
	}
	return o
}

func (it *Interp) abstractFindCommand(g *G, appid, code *Term) Value {
	ts := it.ts
	fnd := it.freshInput("dict.cmd", "dictcmd", 8)
	nreq := it.freshInput("dict.cmd.nreq", "dictcmd", 8)
	nans := it.freshInput("dict.cmd.nans", "dictcmd", 8)
	it.pc = append(it.pc, ts.And(ts.Ule(fnd, ts.Const(8, 1)), ts.And(ts.Ule(nreq, ts.Const(8, 1)), ts.Ule(nans, ts.Const(8, 1)))))
	for _, l := range it.cmdLookups {
		same := ts.And(ts.Eq(l.app, appid), ts.Eq(l.code, code))
		if same.IsFalse() {
			continue
		}
		c := ts.Implies(same, ts.And(ts.Eq(l.found, fnd), ts.And(ts.Eq(l.nreq, nreq), ts.Eq(l.nans, nans))))
		if !c.IsTrue() {
			it.pc = append(it.pc, c)
		}
	}
	it.pc = append(it.pc, ts.Eq(nreq, nans)) // one rule-count variable: only "no rules at all" vs "some" matters to the decoder
	it.cmdLookups = append(it.cmdLookups, dictLookup{app: appid, code: code, found: fnd, nreq: nreq, nans: nans})
	if !it.decide(ts.Eq(fnd, ts.Const(8, 1)), "dictionary: command defined") {
		return Tuple{(*Ptr)(nil), it.newError("Could not find preloaded Command")}
	}
	dp := it.P.pkgs[repoModule+"/diam/dict"]
	cmdT := dp.Type("Command").Type()
	st := cmdT.Underlying().(*types.Struct)
	o := it.newTypedObj(cmdT, "abstract dict.Command")
	ruleT := dp.Type("Rule").Type()
	mkRules := func(n *Term) Value {
		k := int(it.concretize(n, "abstract command rule count"))
		if k == 0 {
			return (*Slice)(nil)
		}
		ro := it.newObj(k, "abstract rules")
		for i := 0; i < k; i++ {
			r := it.newTypedObj(ruleT, "abstract dict.Rule")
			r.cells[0] = concStr("Abstract-AVP")
			ro.cells[i] = &Ptr{obj: r}
		}
		return &Slice{obj: ro, len: k, cap: k, esz: 1}
	}
	for i := 0; i < st.NumFields(); i++ {
		off := it.fieldOff(st, i)
		switch st.Field(i).Name() {
		case "Code":
			o.cells[off] = code
		case "Name":
			o.cells[off] = concStr("Abstract-Command")
		case "Short":
			o.cells[off] = concStr("XX")
		case "Request":
			o.cells[off] = mkRules(nreq)
		case "Answer":
			o.cells[off] = mkRules(nans)
		}
	}
	return Tuple{&Ptr{obj: o}, (*Iface)(nil)}
}

// abstractFindByName models a lookup by AVP name: the dictionary may or may not define the name; if it
// does, the definition has a symbolic code, vendor id and type, consistent with every other lookup.
func (it *Interp) abstractFindByName(g *G, appid *Term, name string, filter *Term) Value {
	ts := it.ts
	// the vendor filter of the lookup: the any-vendor wildcard matches every definition, any other value
	// only a definition with exactly that vendor id (as the real index does)
	answer := func(l *dictLookup) Value {
		undefined := ts.Eq(l.ty, ts.Const(8, 255))
		if filter != nil && !ts.Eq(filter, ts.Const(32, undefinedVendor)).IsTrue() {
			miss := ts.And(ts.Not(ts.Eq(filter, ts.Const(32, undefinedVendor))), ts.Not(ts.Eq(filter, l.vendor)))
			undefined = ts.Or(undefined, miss)
		}
		if it.decide(undefined, "dictionary: name undefined (or defined under another vendor)") {
			return Tuple{(*Ptr)(nil), it.newError("Could not find AVP")}
		}
		if l.res == nil {
			l.res = &Ptr{obj: it.mkAbstractAVP(l.app, l.code, l.vendor, l.ty, name)}
		}
		return Tuple{l.res, (*Iface)(nil)}
	}
	for i := range it.dictLookups {
		l := &it.dictLookups[i]
		if l.name == name && ts.Eq(l.app, appid).IsTrue() {
			return answer(l)
		}
	}
	ty := it.freshInput("dict.type", "dicttype", 8)
	cv := it.freshInput("dict.code", "dictcode", 32)
	vv := it.freshInput("dict.vendor", "dictvendor", 32)
	it.pc = append(it.pc, ts.Or(ts.And(ts.Ule(ts.Const(8, 1), ty), ts.Ule(ty, ts.Const(8, 18))), ts.Eq(ty, ts.Const(8, 255))))
	it.pc = append(it.pc, ts.Not(ts.Eq(vv, ts.Const(32, undefinedVendor))))
	if mask := it.cfg.Params["dict_types"]; mask != 0 {
		allowed := ts.Eq(ty, ts.Const(8, 255))
		for k := 1; k <= 18; k++ {
			if mask&(1<<uint(k)) != 0 {
				allowed = ts.Or(allowed, ts.Eq(ty, ts.Const(8, uint64(k))))
			}
		}
		it.pc = append(it.pc, allowed)
	}
	for _, l := range it.dictLookups {
		// functional consistency with lookups by code: the same (app, code, vendor) has one definition
		same := ts.And(ts.Eq(l.app, appid), ts.And(ts.Eq(l.code, cv), ts.Eq(l.vendor, vv)))
		if same.IsFalse() {
			continue
		}
		def := ts.Not(ts.Eq(ty, ts.Const(8, 255)))
		c := ts.Implies(ts.And(same, def), ts.Eq(l.ty, ty))
		if !c.IsTrue() {
			it.pc = append(it.pc, c)
		}
		if l.name != "" && l.name != name {
			// two different names defined in one application do not share (code, vendor)... they may in
			// real dictionaries; no constraint
		}
	}
	it.dictLookups = append(it.dictLookups, dictLookup{name: name, app: appid, code: cv, vendor: vv, ty: ty})
	return answer(&it.dictLookups[len(it.dictLookups)-1])
}

// dictModel extracts the concrete dictionary table of a counterexample.
func (it *Interp) dictModel(model map[string]uint64) []DictEntry {
	var out []DictEntry
	memo := map[*Term]uint64{}
	ev := func(t *Term) uint64 { return evalTerm(t, model, memo) }
	for _, l := range it.dictLookups {
		ty := int(ev(l.ty))
		if ty == 255 {
			ty = -1
		}
		out = append(out, DictEntry{App: uint32(ev(l.app)), Code: uint32(ev(l.code)), Vendor: uint32(ev(l.vendor)), Type: ty, Name: l.name})
	}
	for _, l := range it.cmdLookups {
		if ev(l.found) != 1 {
			continue
		}
		out = append(out, DictEntry{App: uint32(ev(l.app)), Code: uint32(ev(l.code)), Cmd: true, NReq: int(ev(l.nreq)), NAns: int(ev(l.nans))})
	}
	return out
}

// preCall intercepts calls whose behaviour depends on the receiver object.
func (it *Interp) preCall(g *G, fn *ssa.Function, args []Value) (Value, bool) {
	if len(args) == 0 || fn.Pkg == nil {
		return nil, false
	}
	if fn.Pkg.Pkg.Path() != repoModule+"/diam/dict" || !it.isAbstractDict(args[0]) {
		return nil, false
	}
	switch fn.Name() {
	case "FindAVPWithVendor":
		return it.abstractFindAVP(g, args[1].(*Term), args[2], args[3].(*Term), true), true
	case "FindAVP":
		return it.abstractFindAVP(g, args[1].(*Term), args[2], it.ts.Const(32, undefinedVendor), false), true
	case "FindCommand":
		return it.abstractFindCommand(g, args[1].(*Term), args[2].(*Term)), true
	}
	it.unsupported("abstract dictionary does not model %s", fn.Name())
	return nil, false
}
